"""Normal forms used by C13 (dependency order): the rule states its obligations on these instead of on one spelling.

  core(v)                 the entity a value denotes, without `?`/unwrap/ok_or/map_err wrappers
  reduce(sl, v, keep)     beta-normal form: workspace helpers inlined (except `keep`; keep='*': none), closures applied where they are called
                          (`pred(&g[i])` inside a helper that received `pred`), `from_fn(f)` elements = results of f
  joint(...)              values that range over the elements of a *stored* collection (a local Vec that is only ever
                          pushed to, then iterated) re-expressed per pushed element, consistently across several values
  vec_uses(...)           every call that receives a given local Vec, classified append / read / other
  appended(...)           the element values an append call adds, in order (push: one, extend: the iterator's elements)
  option_cases / cases_of the (guards, value) alternatives of a selected value, whether it is written as an Option
                          combinator chain (`find().map().or_else(|| c.then(..)).unwrap_or_default()`) or as
                          `if let .. else if .. else ..` assigning one local
  flows_out(...)          a "not found" outcome travels up every level of the call chain into a propagated error
"""
from .lib import iters
from .lib.discard import result_fates, verdict, local_fates, Fate
from .lib.guards import conditions, always_through
from .lib.mir import op_place
from .lib.value import walk, canon, subst, OK_PRESERVING, is_transparent

IT = iters.IT
FN_CALLS = ('std::ops::Fn::call', 'std::ops::FnMut::call_mut', 'std::ops::FnOnce::call_once')
ATOMS = ('const', 'param', 'fnitem', 'constitem', 'unknown', 'closure_env', 'upvar')
VEC_NEW = ('std::vec::Vec::<T>::new', 'std::vec::Vec::<T>::with_capacity', 'std::vec::Vec::<T, A>::new')
# Vec methods (and the slice methods reached through deref) that neither change nor reorder the elements
VEC_READS = ('::len', '::is_empty', '::iter', '::into_iter', '::as_slice', '::capacity', '::first', '::last', '::get',
             '::contains', '::reserve', '::shrink_to_fit')
PUSH = ('std::vec::Vec::<T, A>::push', 'std::vec::Vec::<T>::push')
EXTEND = 'std::iter::Extend::extend'


def peel(v):
    while v[0] in ('unwrap', 'updated'):
        v = v[1]
    return v


def core(v):
    """peel everything that leaves the success payload untouched"""
    while True:
        if v[0] in ('unwrap', 'updated'):
            v = v[1]
        elif v[0] == 'call' and v[1] in OK_PRESERVING and v[2]:
            v = v[2][0]
        else:
            return v


def is_call(v, *suffixes):
    return isinstance(v, tuple) and len(v) >= 3 and v[0] == 'call' and isinstance(v[1], str) and v[1].endswith(suffixes)


def site_of(v):
    return v[3] if isinstance(v, tuple) and len(v) == 4 and v[0] == 'call' else None


# ---- beta normal form ---------------------------------------------------------------------------------------------
def reduce(sl, v, keep=(), depth=0):
    if not isinstance(v, tuple) or not v:
        return v
    if isinstance(v[0], str) and v[0] in ATOMS:
        return v
    out = tuple(reduce(sl, x, keep, depth) if isinstance(x, tuple) else x for x in v)
    if not isinstance(out[0], str) or depth > 8:
        return out
    k = out[0]
    if k == 'call' and len(out) >= 3:
        name, args = out[1], out[2]
        if name in FN_CALLS and len(args) == 2 and peel(args[0])[0] in ('closure', 'fnitem') and args[1][0] == 'tuple':
            r = sl.apply_closure(peel(args[0]), tuple(args[1][1]))
            if r is not None:
                return reduce(sl, r, keep, depth + 1)
        if keep != '*' and name in sl.prog.fns and name not in keep and sl.prog.fns[name].kind != 'Closure':
            iv = sl.inline_call(out)
            if iv is not None and iv != out:
                return reduce(sl, iv, keep, depth + 1)
        return out
    if k == 'icall' and len(out) >= 3 and peel(out[1])[0] in ('closure', 'fnitem'):
        r = sl.apply_closure(peel(out[1]), tuple(out[2]))
        if r is not None:
            return reduce(sl, r, keep, depth + 1)
        return out
    if k == 'unwrap':
        x = out[1]
        if is_call(x, 'Iterator::next') and x[2]:
            src = core(x[2][0])
            if src[0] == 'call' and src[1] == 'std::iter::from_fn' and src[2]:
                r = sl.apply_closure(peel(src[2][0]), ())
                if r is not None:
                    # the elements of from_fn(f) are the Some payloads f returns, until the first None
                    return reduce(sl, sl.mk_unwrap(r, 1), keep, depth + 1)
        return sl.mk_unwrap(x, 1) if out != v else out
    if out != v:
        if k == 'field':
            return sl._field(out[1], out[2])
        if k == 'variant':
            return sl._variant(out[1], out[2])
    return out


def apply1(sl, clv, arg, keep=()):
    """beta-normal result of calling closure value clv with one argument; None when clv is not a known closure"""
    clv = peel(clv)
    if clv[0] == 'lambda':
        # the predicate / payload of a search loop (NormalSlicer): the loop body's value with the loop element bound
        return reduce(sl, replace_exact(clv[2], clv[1], arg), keep)
    if clv[0] not in ('closure', 'fnitem'):
        return None
    r = sl.apply_closure(clv, (arg,))
    return reduce(sl, r, keep) if r is not None else None


def sym(name):
    return ('param', '$' + name, 0, name)


# ---- local collections that are filled and then iterated -----------------------------------------------------------
def scope_fns(prog, fn):
    return [fn] + prog.closures_of(fn)


def vec_uses(prog, sl, fn, site, _is=None, _depth=0):
    """calls in fn (its closures, and the workspace helpers the collection is handed to) that receive the Vec created at
    `site`: ([(call, holder fn, 'push'|'extend')], [read-only calls], [anything else])"""
    app, reads, other = [], [], []
    is_vec = _is or (lambda v: site_of(v) == site)
    for g in scope_fns(prog, fn):
        for c in g.calls:
            if c.indirect or not c.args:
                continue
            hit = [i for i, a in enumerate(c.args) if is_vec(peel(sl.operand(g, a)))]
            if not hit:
                continue
            if is_transparent(c) and hit == [0]:
                continue    # deref / as_ref: the result is the same entity, followed by the slicer
            if hit == [0] and c.name in PUSH and len(c.args) == 2:
                app.append((c, g, 'push'))
            elif hit == [0] and c.decl == EXTEND and len(c.args) == 2:
                app.append((c, g, 'extend'))
            elif hit == [0] and c.decl == IT + 'next':
                reads.append(c)     # `for x in v`: into_iter is transparent, the loop reads the elements front to back
            elif hit == [0] and c.name and c.name.endswith(VEC_READS) and c.name.startswith(('std::vec::Vec', 'core::slice', 'std::slice', '<std::vec::Vec', 'std::iter::IntoIterator')):
                reads.append(c)
            else:
                callees = [h for h in prog.callee_fns(c) if h.kind != 'Closure']
                if len(callees) == 1 and len(hit) == 1 and _depth < 4 and hit[0] < callees[0].argc:
                    # a helper that receives the collection: what it does with that parameter
                    h, i = callees[0], hit[0]
                    a2, r2, o2 = vec_uses(prog, sl, h, site, lambda v, h=h, i=i: v[0] == 'param' and v[1] == h.path and v[2] == i, _depth + 1)
                    app.extend(a2)
                    reads.extend(r2)
                    other.extend(o2)
                else:
                    other.append(c)
    return app, reads, other


def appended(sl, call, holder, kind, keep=()):
    """[(element value, filtered?)] added by one append call, in order"""
    if kind == 'push':
        return [(reduce(sl, sl.operand(holder, call.args[1]), keep), False)]
    it = sl.operand(holder, call.args[1])
    keeps = in_order(it)
    return [(reduce(sl, e, keep), fl or not keeps) for e, _, fl in iters.alts(sl, it)]


ORDERED = {IT + 'map', IT + 'peekable', IT + 'by_ref', IT + 'fuse', IT + 'cloned', IT + 'copied', IT + 'inspect'}


def in_order(it, depth=0):
    """the iterator expression yields the elements of its sources front to back, none dropped: only element-wise stages
    (map, cloned, ..), collect / iter / into_iter round trips, chain, once, from_fn"""
    it = peel(it)
    if depth > 12:
        return False
    if it[0] != 'call':
        return it[0] in ('param', 'field', 'array', 'upvar')
    name, args = it[1], it[2]
    if name in ORDERED or name in iters.COLLECTING:
        return bool(args) and in_order(args[0], depth + 1)
    if name == IT + 'chain' and len(args) == 2:
        return in_order(args[0], depth + 1) and in_order(args[1], depth + 1)
    if name in ('std::iter::from_fn', 'std::iter::once', 'std::iter::empty'):
        return True
    if iters._is_source(name) and name.endswith(iters.SAME_ELEMS) and len(args) == 1:
        return in_order(args[0], depth + 1)
    # any other iterator adapter (rev, filter, skip, step_by, ..) or an opaque producer
    return not name.startswith(('std::iter::', 'core::iter::')) and name in VEC_NEW


def _choice(prog, sl, fn, v):
    """first sub-value `unwrap(next(C))` whose collection C decomposes: (element, [element values]) where C is
       - a local Vec that is only ever pushed to (filled in one phase, iterated in the next): the pushed values
       - an iterator pipeline / collected pipeline (`xs.into_iter().map(f).collect::<Result<Vec<_>, _>>()?`): the
         pipeline's element values in terms of the elements of xs (iters.alts), none filtered"""
    for x in walk(v):
        if not (x[0] == 'unwrap' and is_call(x[1], 'Iterator::next') and x[1][1].startswith(IT) and x[1][2]):
            continue
        coll = x[1][2][0]
        src = peel(coll)
        st = site_of(src)
        if st is not None and src[1] in VEC_NEW:
            holder = prog.fns.get(st[0])
            if holder is None:
                continue
            top = holder
            while top.kind == 'Closure' and top.parent in prog.fns:
                top = prog.fns[top.parent]
            app, _, other = vec_uses(prog, sl, top, st)
            if other or not app or any(kind != 'push' or g not in scope_fns(prog, top) for _, g, kind in app):
                continue
            return x, [sl.operand(g, c.args[1]) for c, g, _ in app]
        al = iters.alts(sl, coll)
        if al and not iters.trivial(al, coll) and not any(fl for _, _, fl in al) and \
                not (len(al) == 1 and al[0][1] is not None and canon(iters.elem_of(al[0][1])) == canon(al[0][0])):
            return x, [e for e, _, _ in al]
    return None


def joint(prog, sl, fn, values, depth=0):
    """[tuple(values)] with every element of a decomposable collection replaced by each of its element values, the same
    one in all values (a pair pushed as `(a, b)` and read back as `.0` / `.1` stays a pair)"""
    values = tuple(values)
    if depth > 6:
        return [values]
    for v in values:
        ch = _choice(prog, sl, fn, v)
        if ch is None:
            continue
        elem, pushed = ch
        out = []
        for p in pushed:
            m = {'__repl__': [(canon(elem), p)]}
            out.extend(joint(prog, sl, fn, tuple(subst(x, m, sl) for x in values), depth + 1))
        return out
    return [values]


def normal_forms(prog, sl, fn, values, keep=()):
    """the alternatives of a tuple of values (joint) in beta-normal form"""
    return [tuple(reduce(sl, x, keep) for x in alt) for alt in joint(prog, sl, fn, values)]


# ---- iterated collections -----------------------------------------------------------------------------------------
def element_of(sl, v):
    """if v (peeled) is the element of an iteration return the iterated collection (peeled), else None"""
    v = peel(v)
    if is_call(v, 'Iterator::next') and v[1].startswith(IT) and v[2]:
        al = iters.alts(sl, v[2][0])
        if len(al) == 1 and al[0][1] is not None and not al[0][2]:
            return peel(al[0][1])
        return peel(v[2][0])
    return None


# ---- selected values ----------------------------------------------------------------------------------------------
DEFAULT = ('const', '<Default::default()>')
OPT = 'std::option::Option::<T>::'
THEN = ('std::bool::<impl bool>::then', 'core::bool::<impl bool>::then')
THEN_SOME = ('std::bool::<impl bool>::then_some', 'core::bool::<impl bool>::then_some')


def origin_local(fn, local):
    """the local that `local` is a view of: follows single-definition copies, borrows and transparent calls
    (`&v`, `&*v`, `Deref::deref(&v)`) back to the local that is actually assigned"""
    for _ in range(12):
        defs = fn.whole_defs(local)
        if len(defs) != 1 or 1 <= local <= fn.argc:
            return local
        d = defs[0]
        if d[0] == 'stmt' and d[3]['r'] in ('use', 'ref', 'cfd'):
            src = op_place(d[3]['o']) if d[3]['r'] == 'use' else d[3]['p']
        elif d[0] == 'call' and is_transparent(d[3]) and d[3].args:
            src = op_place(d[3].args[0])
        else:
            return local
        if not src or any(p != '*' for p in src[1:]):
            return local
        local = src[0]
    return local


class Cases:
    """the alternatives [(guards, value)] of a selected value, with the decisions that lead to each alternative:
    guards are ('some'|'none', option value) and (True|False, boolean value).  The same table comes out of
      find(..).map(f).or_else(|| c.then(|| all)).unwrap_or_default()
      if let Some(n) = find(..) { f(n) } else if c { all } else { Vec::new() }
      match find(..) { Some(n) => f(n), None if c => all, None => vec![] }
      find(..).map_or_else(|| if c { all } else { vec![] }, f)        a private helper returning any of these
    because combinators are unfolded, closures and private helpers are entered, and an assigned local / returned value
    contributes one alternative per assignment under the branch decisions that dominate it."""

    def __init__(self, prog, sl, keep='*'):
        from .lib.value import Slicer
        self.prog, self.sl, self.keep = prog, sl, keep
        self.sym = Slicer(prog, sl.max_depth)
        self.sym.symbolic_upvars = True

    # -- entry points
    def of_operand(self, fn, operand):
        pl = op_place(operand)
        v = self.sl.operand(fn, operand)
        if not pl:
            return self.of_value(v, ())
        local = origin_local(fn, pl[0])
        if len(fn.whole_defs(local)) < 2:
            return self.of_value(v, ())
        return self.of_local(self.sl, fn, local, {}, (), 0)

    def of_local(self, S, fn, local, m, guards, depth):
        """one alternative per assignment of the local, under the decisions dominating that assignment"""
        out = []
        for d in fn.whole_defs(local):
            if d[0] == 'call' and d[3].decl and d[3].decl.endswith('FromResidual::from_residual'):
                continue
            val = subst(S._def_value(fn, d, set(), 0), m, self.sl) if m else S._def_value(fn, d, set(), 0)
            gs = []
            for c in conditions(fn, d[1], S):
                if c.kind == 'variant' and c.subject is not None and c.enum == 'std::option::Option' and len(c.outcome) == 1:
                    gs.append(('some' if 'Some' in c.outcome else 'none', subst(c.subject, m, self.sl) if m else c.subject))
                elif c.kind == 'bool':
                    gs.append((c.outcome, subst(c.value, m, self.sl) if m else c.value))
            out.extend(self.of_value(val, guards + tuple(gs), depth + 1))
        return out

    def returned(self, g, m, guards, depth):
        """alternatives of what function / closure g returns, parameters and captures bound by m"""
        S = self.sym if g.kind == 'Closure' else self.sl
        local = origin_local(g, 0)
        if 1 <= local <= g.argc or not g.whole_defs(local):
            v = S.local(g, 0)
            return self.of_value(subst(v, m, self.sl) if m else v, guards, depth + 1)
        return self.of_local(S, g, local, m, guards, depth)

    def apply(self, clv, args, guards, depth):
        """alternatives of calling closure / fn item clv; None when it is not a known body"""
        clv = peel(clv)
        if clv[0] not in ('closure', 'fnitem') or depth > 8:
            return None
        g = self.prog.fns.get(clv[1])
        if g is None:
            return None
        if clv[0] == 'closure':
            m = {(g.path, 1 + i): a for i, a in enumerate(args)}
            for i, uv in enumerate(clv[2]):
                m[('upvar', g.path, i)] = uv
        else:
            m = {(g.path, i): a for i, a in enumerate(args)}
        return self.returned(g, m, guards, depth + 1)

    # -- plain values
    def of_value(self, v, guards, depth=0):
        p = peel(v) if v[0] == 'updated' else v
        if depth < 10 and p[0] == 'call':
            name, args = p[1], p[2]
            other = None
            if name == OPT + 'unwrap_or_default' and len(args) == 1:
                other = lambda g: [(g, DEFAULT)]
            elif name == OPT + 'unwrap_or' and len(args) == 2:
                other = lambda g: self.of_value(args[1], g, depth + 1)
            elif name == OPT + 'unwrap_or_else' and len(args) == 2:
                other = lambda g: self.apply(args[1], (), g, depth + 1) or [(g, ('unknown', 'unwrap_or_else'))]
            if other is not None:
                out = []
                for g, pay in self.option(args[0], guards, depth + 1):
                    out.extend(self.of_value(pay, g, depth + 1) if pay is not None else other(g))
                return out
            if name in (OPT + 'map_or_else', OPT + 'map_or') and len(args) == 3:
                out = []
                for g, pay in self.option(args[0], guards, depth + 1):
                    if pay is not None:
                        out.extend(self.apply(args[2], (pay,), g, depth + 1) or [(g, ('unknown', 'map_or'))])
                    elif name.endswith('map_or'):
                        out.extend(self.of_value(args[1], g, depth + 1))
                    else:
                        out.extend(self.apply(args[1], (), g, depth + 1) or [(g, ('unknown', 'map_or_else'))])
                return out
            h = self.prog.fns.get(name)
            if h is not None and h.kind != 'Closure' and h.vis != 'pub' and not h.ret.startswith(('std::result::Result', 'std::option::Option')):
                # a private helper that makes the selection
                m = {(h.path, i): a for i, a in enumerate(args) if i < h.argc}
                return self.returned(h, m, guards, depth + 1)
        if p[0] == 'phi':
            # alternatives whose decisions are not known here stay one opaque value
            return [(guards, v)]
        return [(guards, reduce(self.sl, v, self.keep))]

    # -- Option values: [(guards, payload | None)]
    def option(self, v, guards, depth=0):
        v0 = v
        v = peel(v) if v[0] == 'updated' else v
        if depth < 10 and v[0] == 'call' and v[2]:
            name, args = v[1], v[2]
            if name == OPT + 'map' and len(args) == 2:
                out = []
                for g, p in self.option(args[0], guards, depth + 1):
                    if p is None:
                        out.append((g, None))
                    else:
                        out.extend(self.apply(args[1], (p,), g, depth + 1) or [(g, ('unknown', 'map'))])
                return out
            if name in (OPT + 'or_else', OPT + 'or') and len(args) == 2:
                out = []
                for g, p in self.option(args[0], guards, depth + 1):
                    if p is not None:
                        out.append((g, p))
                    elif name.endswith('::or'):
                        out.extend(self.option(args[1], g, depth + 1))
                    else:
                        rs = self.apply(args[1], (), g, depth + 1)
                        if rs is None:
                            out.append((g, ('unknown', 'or_else')))
                        for g2, r in rs or ():
                            out.extend(self.option(r, g2, depth + 1))
                return out
            if name in THEN + THEN_SOME and len(args) == 2:
                cond = args[0]
                yes = guards + ((True, cond),)
                if name in THEN_SOME:
                    rs = self.of_value(args[1], yes, depth + 1)
                else:
                    rs = self.apply(args[1], (), yes, depth + 1) or [(yes, ('unknown', 'then'))]
                return rs + [(guards + ((False, cond),), None)]
        if v[0] == 'agg' and v[1] == 'std::option::Option':
            if v[2] == 'Some' and v[3]:
                return self.of_value(v[3][0][1], guards, depth + 1)
            if v[2] == 'None':
                return [(guards, None)]
        return [(guards + (('some', v0),), self.sl.mk_unwrap(v0)), (guards + (('none', v0),), None)]


def vec_macro_elems(sl, fn, v):
    """elements of a `vec![a, b]` value (lowered to a boxed array written through a raw pointer), or None"""
    v = peel(v)
    st = site_of(v)
    if st is None or 'into_vec' not in v[1]:
        return None
    g = sl.prog.fns.get(st[0])
    if g is None:
        return None
    call = g.call_at(st[1])
    if call is None or 'vec' not in (call.macros or []) and 'vec' not in str(call.exp):
        return None
    found = []
    for b in g.blocks:
        for s in b['s']:
            if s[0] == '=' and len(s[1]) > 1 and s[2]['r'] == 'agg' and s[2].get('kind') == 'array':
                found.append(s)
    if len(found) != 1:
        return None
    return [sl.operand(g, o) for o in found[0][2]['ops']]


# ---- error propagation along a call chain --------------------------------------------------------------------------
def carried_out(prog, calls):
    """the Option/Result produced by calls[0] is, at every level (calls[1:] = the enclosing calls, innermost first),
    propagated (`?`, returned, matched with the failure read) and never discarded — inside a closure or helper `?` only
    hands the failure to the enclosing call, whose result has to be carried on in turn: (ok, first bad level)"""
    for c in calls:
        if isinstance(c, Search):
            # the Option a search loop leaves in its result local
            fates = [Fate('returned')] if c.local == 0 else local_fates(prog, c.fn, c.local, {}, set(), 0)
            name, where = 'search loop', '%s:%s' % (c.fn.file, c.loop.next_call.where().split(':')[-1])
        else:
            fates = result_fates(prog, c.fn, c)
            name, where = c.name, c.where()
        vd = verdict(fates)
        if vd != 'ok':
            return False, '%s at %s: %s' % (name, where, [repr(x) for x in fates])
        if not any(f.kind in ('returned', 'propagated') for f in fates):
            break
    return True, None


def flows_out(prog, eff, search=None):
    """(search: the effect's call is the `next()` of that search loop — what is followed is the loop's result)"""
    return carried_out(prog, [search if search is not None else eff.call] + [l.call for l in reversed(eff.chain)])


def none_is_error(prog, sl, eff, variant, search=None):
    """the Option produced at the effect's call (or handed up unchanged by the helpers around it: returned as their own
    result) is branched on (`match` / `let .. else` / `if let .. else`) and its None arm can only leave the function
    through `Err(<variant>)`, which the enclosing levels carry on"""
    carriers = [search if search is not None else eff.call] + [l.call for l in reversed(eff.chain)]
    for n, c in enumerate(carriers):
        f = c.fn
        here = c.site if isinstance(c, Search) else (f.path, c.bb)
        for d in f.whole_defs(0):
            if not (d[0] == 'stmt' and d[3]['r'] == 'agg' and d[3].get('variant') == 'Err'):
                continue
            val = sl._def_value(f, d, set(), 0)
            if not any(y[0] == 'agg' and y[2] == variant for y in walk(val)):
                continue
            for cd in conditions(f, d[1], sl):
                if cd.kind == 'variant' and cd.subject is not None and cd.outcome == frozenset(['None']) and site_of(core(cd.subject)) == here:
                    if always_through(f, cd.target, d[1], f.return_blocks()):
                        return carried_out(prog, carriers[n + 1:])
        # not decided here: the Option has to be this function's own result for the next level to decide
        if isinstance(c, Search):
            handed_up = c.local == 0
        else:
            fates = result_fates(prog, f, c)
            handed_up = bool(fates) and all(x.kind == 'returned' for x in fates) and (f.ret or '').startswith('std::option::Option<')
        if not handed_up:
            break
    return False, 'no None arm returning Err(%s)' % variant


# ====================================================================================================================
# R6 — how a collection is built from another collection
#
#   Build            normal form of "a Vec built from the elements of a collection", whether it is written as an iterator
#                    pipeline that is collected (`xs.iter().filter(p).map(f).collect()`), or as a local Vec that is only
#                    ever pushed to inside a loop over (a pipeline over) xs: the base collection, the element that is
#                    added in terms of one element of the base collection, the per-element conditions under which it is
#                    added, and everything that makes the result something else than "one entry per element that passes the
#                    conditions, in order" (positional truncation, reordering, early exit, unknown adapters)
#   Payloads         the alternatives (decisions, value, frame) of a success payload: locals assigned in several branches
#                    are split per assignment, private helpers are entered through `?` / and_then / map with their
#                    parameters bound, early `return Ok(..)` is one alternative per success site
#   truth(...)       when does a boolean closure / private helper return true: the variant decisions that lead to `true`,
#                    and whether they are also sufficient (every other way out passes a complementary decision)
#   success_implies  the success of every public entry point that runs a call implies that call's Result was Ok
# ====================================================================================================================
from .lib.discard import ok_on_success
from .lib.guards import edge_dominates
from .lib.effects import success_sites, find_loops

TRANSPARENT_STAGES = {IT + 'cloned', IT + 'copied', IT + 'by_ref', IT + 'peekable', IT + 'fuse', IT + 'inspect'}
REVERSING = {IT + 'rev', 'std::iter::DoubleEndedIterator::rev'}
STAGES = {IT + 'map', IT + 'filter', IT + 'filter_map'}
TRY_BRANCH = 'std::ops::Try::branch'
SINGLE = {IT + x for x in ('next', 'last', 'nth', 'find', 'find_map', 'max', 'min', 'max_by', 'min_by', 'max_by_key', 'min_by_key', 'next_back', 'nth_back')}


def opaque_names(prog, always=()):
    """functions that stay calls in normal forms: everything except the private (module-level) functions of the
    workspace, which are transparent; `always` are the anchors of the rule"""
    keep = {p for p, f in prog.fns.items() if f.kind != 'Closure' and f.vis != 'restricted'}
    keep.update(always)
    return frozenset(keep)


class Keep:
    """one per-element condition of a Build
       'variant'  subject's variant is in outcome (enum)          from a loop body / a boolean predicate
       'some'     value (an Option) is Some                        from filter_map
       'bool'     value is outcome                                 a tested boolean that is not a known predicate
       'pred'     an opaque predicate (filter closure that could not be decided)"""

    def __init__(self, kind, outcome=None, subject=None, enum=None, value=None, origin=None, total=True):
        self.kind, self.outcome, self.subject, self.enum, self.value, self.origin, self.total = kind, outcome, subject, enum, value, origin, total

    def __repr__(self):
        from .lib.value import vstr
        if self.kind == 'variant':
            return '%s is %s' % (vstr(self.subject)[:90], '|'.join(sorted(self.outcome)))
        if self.kind == 'some':
            return '%s is Some' % vstr(self.value)[:90]
        if self.kind == 'bool':
            return '%s == %s' % (vstr(self.value)[:90], self.outcome)
        return 'predicate %s' % (vstr(self.value)[:90] if self.value is not None else '?')


class Build:
    def __init__(self, kind, frame=None):
        self.kind = kind            # 'empty' | 'built' | 'opaque'
        self.frame = frame          # function the building code lives in
        self.coll = None            # base collection (entry terms)
        self.x = None               # the symbolic element of the base collection
        self.elem = None            # what is added per element, in terms of x
        self.conds = []             # [Keep]
        self.problems = []          # [(severity 'violated'|'unproven', text)]
        self.sink = None            # the collecting Call (pipeline) — its result type says whether it short-circuits
        self.push = None            # the push Call (loop form)
        self.form = None            # 'pipeline' | 'loop'
        self.where = None
        self.sites = set()          # creation sites of the collection (Vec::new / collect calls)

    def bad(self, sev, text):
        self.problems.append((sev, text))
        return self


def apply_stage(sl, clv, arg, keep):
    """result of calling the closure / fn item of an adapter stage with one element; opaque functions stay calls"""
    clv = peel(clv)
    if clv[0] == 'fnitem' and (clv[1] in keep or clv[1] not in sl.prog.fns):
        return ('call', clv[1], (arg,), None)
    if clv[0] == 'closure' and clv[1] in keep:
        # a closure that is an anchor of the rule (the node constructor written as the body of a map stage) is one entity,
        # like the named function it replaces
        return ('call', clv[1], (arg,), None)
    return apply1(sl, clv, arg, keep)


def pipeline(prog, sl, v, keep, b=None):
    """Build of an iterator expression / collected iterator expression (value level)"""
    b = b or Build('built')
    b.form = b.form or 'pipeline'
    chain = []
    x = v
    for _ in range(40):
        while x[0] in ('unwrap', 'updated'):
            x = x[1]
        if x[0] != 'call' or not x[2]:
            break
        name, args = x[1], x[2]
        if name in OK_PRESERVING:
            x = args[0]
        elif name in iters.COLLECTING:
            if b.sink is None and site_of(x) is not None and site_of(x)[0] in prog.fns:
                b.sink = prog.fns[site_of(x)[0]].call_at(site_of(x)[1])
            if site_of(x) is not None:
                b.sites.add(site_of(x))
            x = args[0]
        elif name in STAGES and len(args) == 2:
            chain.append((name, args[1]))
            x = args[0]
        elif name in TRANSPARENT_STAGES:
            x = args[0]
        elif name in REVERSING:
            b.bad('violated', 'the elements are taken in reverse order (%s)' % name.split('::')[-1])
            x = args[0]
        elif name in iters.TRUNCATING:
            b.bad('violated', 'elements are dropped by position: %s cuts the iteration short / skips a prefix, every later element is lost' % name.split('::')[-1])
            if len(args) == 2 and name in iters.LAZY_WITH_CLOSURE:
                chain.append((name, args[1]))
            x = args[0]
        elif iters._is_source(name) and name.endswith(iters.SAME_ELEMS) and len(args) == 1:
            x = args[0]
        elif name in SINGLE:
            b.bad('violated', 'a single element is taken out of the iteration (%s): the others are lost' % name.split('::')[-1])
            x = args[0]
        elif name.startswith(('std::iter::', 'core::iter::')):
            b.bad('unproven', 'iterator adapter %s is not modelled' % name)
            for y in walk(x):
                if y[0] == 'call' and y[1] in iters.TRUNCATING:
                    b.bad('violated', 'elements are dropped by position: %s cuts the iteration short / skips a prefix, every later element is lost' % y[1].split('::')[-1])
            break
        else:
            break
    b.coll = x
    b.x = iters.elem_of(x)
    e = b.x
    for name, clv in reversed(chain):
        r = apply_stage(sl, clv, e, keep)
        if r is None:
            b.bad('unproven', 'the closure of %s is not a known body' % name.split('::')[-1])
            break
        if name == IT + 'map':
            e = r
        elif name == IT + 'filter':
            b.conds.extend(predicate(prog, sl, clv, r, e, keep))
        elif name in (IT + 'filter_map', IT + 'map_while'):
            b.conds.append(Keep('some', value=r, origin=name))
            e = sl.mk_unwrap(r, 1)
        else:
            b.conds.append(Keep('pred', value=r, origin=name))
    b.elem = e
    return b


# ---- boolean predicates ----------------------------------------------------------------------------------------------
def _reaches_end_avoiding(fn, start, vias, ends, skip):
    """some path start -> ends that neither passes a block of vias nor uses an edge of skip"""
    seen, work = set(), [start]
    while work:
        blk = work.pop()
        if blk in seen or blk in vias:
            continue
        seen.add(blk)
        if blk in ends:
            return True
        for t in fn.succs(blk):
            if (blk, t) not in skip:
                work.append(t)
    return False


def infeasible_edges(fn):
    """`otherwise` edges of switches over an enum discriminant whose variants are all listed: never taken (rustc shares the
    target with a real arm instead of an `unreachable` block after simplification)"""
    from .lib.guards import _discr_info
    out = set()
    for sb, blk in enumerate(fn.blocks):
        t = blk['t']
        if t['t'] != 'switch':
            continue
        di = _discr_info(fn, sb, t['o'])
        if di and di[1]:
            listed = {v for v, _ in t['targets']}
            if all(v in listed for v in di[1]) and all(tb != t['else'] for _, tb in t['targets']):
                out.add((sb, t['else']))
    return out


def conditions_x(fn, bb, sl):
    """guards.conditions on the CFG without the infeasible `otherwise` edges (variant decisions only need this)"""
    from .lib.guards import Cond, _discr_info
    dead = infeasible_edges(fn)
    if not dead:
        return conditions(fn, bb, sl)

    def reach_without(edge):
        seen, work = set(), [0]
        while work:
            blk = work.pop()
            if blk in seen:
                continue
            seen.add(blk)
            for t in fn.succs(blk):
                if (blk, t) != edge and (blk, t) not in dead:
                    work.append(t)
        return seen
    if bb not in reach_without(None):
        return conditions(fn, bb, sl)
    out = []
    base = {(c.sw_bb, c.target): c for c in conditions(fn, bb, sl)}
    for sb, blk in enumerate(fn.blocks):
        t = blk['t']
        if t['t'] != 'switch':
            continue
        by_target = {}
        for v, tb in t['targets']:
            by_target.setdefault(tb, []).append(v)
        by_target.setdefault(t['else'], []).append('else')
        for tb, labels in by_target.items():
            if (sb, tb) in dead:
                continue
            if (sb, tb) in base:
                out.append(base[(sb, tb)])
                continue
            if bb in reach_without((sb, tb)):
                continue
            di = _discr_info(fn, sb, t['o'])
            if not di:
                continue    # (boolean / integer decisions: only what guards.conditions reports)
            place, vmap, enum = di
            listed = [v for v, _ in t['targets']]
            names = set()
            for lab in labels:
                if lab == 'else':
                    names |= {n for v, n in vmap.items() if v not in listed}
                else:
                    names.add(vmap.get(lab, str(lab)))
            out.append(Cond(fn, sb, tb, 'variant', frozenset(names), sl.operand(fn, t['o']), sl.place(fn, place), enum))
    return out


def truth(prog, sl, g, m, keep, depth=0, local=0, want=True):
    """when does the boolean function / closure g return true: [([Keep 'variant' ..], total)] — one entry per
    `true` result with the variant decisions dominating it (subjects substituted by m); total = every way to return
    without passing one of the `true` results takes a complementary edge of one of those decisions (so the decisions are
    sufficient, not only necessary).  `!x` is x with the roles of true and false exchanged.  None when g is not of that
    shape."""
    from .lib.value import subst
    if depth > 6:
        return None
    defs = g.whole_defs(local)
    if len(defs) == 1 and defs[0][0] == 'stmt' and defs[0][3]['r'] == 'un' and defs[0][3].get('op') == 'Not':
        pl = op_place(defs[0][3]['o'])
        if pl and not pl[1:]:
            return truth(prog, sl, g, m, keep, depth + 1, pl[0], not want)
        return None
    if len(defs) == 1 and defs[0][0] == 'stmt' and defs[0][3]['r'] == 'use' and op_place(defs[0][3]['o']) and not op_place(defs[0][3]['o'])[1:]:
        return truth(prog, sl, g, m, keep, depth + 1, op_place(defs[0][3]['o'])[0], want)
    dead = infeasible_edges(g)
    if len(defs) == 1 and defs[0][0] == 'call':
        c = defs[0][3]
        hs = [h for h in prog.callee_fns(c) if h.kind != 'Closure' and h.path not in keep]
        if len(hs) == 1 and not _reaches_end_avoiding(g, 0, {c.bb}, set(g.return_blocks()), dead):
            h = hs[0]
            m2 = {(h.path, i): subst(sl.operand(g, a), m, sl) for i, a in enumerate(c.args) if i < h.argc}
            return truth(prog, sl, h, m2, keep, depth + 1, 0, want)
        return None
    trues, out = [], []
    for d in defs:
        if not (d[0] == 'stmt' and d[3]['r'] == 'use' and isinstance(d[3].get('o'), dict) and 'k' in d[3]['o']):
            return None
        val = d[3]['o']['k'].get('v')
        if not (isinstance(val, dict) and 'bool' in val):
            return None
        if val['bool'] == want:
            trues.append(d)
    if not trues:
        return None
    skip = set(dead)
    vias = {d[1] for d in trues}
    for d in trues:
        ks = []
        for cd in conditions_x(g, d[1], sl):
            if cd.kind == 'variant' and cd.subject is not None:
                ks.append(Keep('variant', cd.outcome, subst(cd.subject, m, sl), cd.enum, origin=g.path))
            elif cd.kind == 'bool':
                ks.append(Keep('bool', cd.outcome, value=subst(cd.value, m, sl), origin=g.path))
            else:
                ks.append(Keep('pred', value=subst(cd.value, m, sl), origin=g.path))
            skip |= {(cd.sw_bb, t) for t in g.succs(cd.sw_bb) if t != cd.target}
        out.append(ks)
    total = not _reaches_end_avoiding(g, 0, vias, set(g.return_blocks()), skip)
    return [(ks, total) for ks in out]


def predicate(prog, sl, clv, applied, e, keep):
    """Keep conditions of `filter(clv)` for element e"""
    clv = peel(clv)
    g = prog.fns.get(clv[1]) if clv[0] in ('closure', 'fnitem') else None
    if g is None:
        return [Keep('pred', value=applied)]
    if clv[0] == 'closure':
        m = {(g.path, 1): e}
        for i, uv in enumerate(clv[2]):
            m[('upvar', g.path, i)] = uv
    else:
        m = {(g.path, 0): e}
    t = truth(prog, sl, g, m, keep)
    if t is None:
        return [Keep('pred', value=applied, origin=g.path)]
    if len(t) == 1:
        ks, total = t[0]
        for k in ks:
            k.total = total
        return ks
    # several `true` results: alternatives that differ in one variant decision on the same subject are one decision
    base = t[0][0]
    if all(len(ks) == len(base) for ks, _ in t):
        merged = []
        for i, k in enumerate(base):
            col = [ks[i] for ks, _ in t]
            if all(c.kind == 'variant' and k.kind == 'variant' and canon(c.subject) == canon(k.subject) for c in col):
                merged.append(Keep('variant', frozenset().union(*[c.outcome for c in col]), k.subject, k.enum, origin=g.path, total=all(tt for _, tt in t)))
            else:
                return [Keep('pred', value=applied, origin=g.path)]
        return merged
    return [Keep('pred', value=applied, origin=g.path)]


def some_when(prog, sl, g, m, keep):
    """round 5 — when does the Option-returning function g return Some: [([Keep ..], total, defining stmt)], one entry per
    `Some(..)` result with the decisions dominating it (subjects substituted by m) — truth() for a function that says "keep
    this element" by returning Some(payload) instead of true (the body of a `filter_map` that fuses `filter(p).map(f)`).
    total = every way to a None result that does not pass one of the Some results takes a complementary edge of one of those
    decisions.  None when some result of g is not a literal Some(..) / None.  A function returning Result<Option<..>> is the
    same thing with `Ok(Some(..))` / `Ok(None)` as results (its failures are not results; the `?`s passed on the way to a
    Some are among the decisions, as ControlFlow::Continue)."""
    res = g.ret.startswith('std::result::Result<std::option::Option<')
    if not (g.ret.startswith('std::option::Option<') or res):
        return None
    local = 0
    for _ in range(6):
        defs = g.whole_defs(local)
        if len(defs) == 1 and defs[0][0] == 'stmt' and defs[0][3]['r'] == 'use' and op_place(defs[0][3]['o']) and not op_place(defs[0][3]['o'])[1:]:
            local = op_place(defs[0][3]['o'])[0]
        else:
            break
    is_opt = lambda d: d[0] == 'stmt' and d[3]['r'] == 'agg' and d[3].get('adt') == 'std::option::Option' and d[3].get('variant') in ('Some', 'None')
    somes = []      # (block the decisions are read at, the `Some(..)` statement)
    nones = set()   # blocks where a None result is made
    for d in defs:
        if res:
            # Result<Option<..>>: failures (`?`, Err(..)) are not results; every Ok(..) holds a literal Some(..) / None
            if d[0] == 'call' and d[3].decl and d[3].decl.endswith('FromResidual::from_residual'):
                continue
            if d[0] == 'stmt' and d[3]['r'] == 'agg' and d[3].get('adt') == 'std::result::Result' and d[3].get('variant') == 'Err':
                continue
            if not (d[0] == 'stmt' and d[3]['r'] == 'agg' and d[3].get('adt') == 'std::result::Result' and d[3].get('variant') == 'Ok' and len(d[3]['ops']) == 1):
                return None
            pl = op_place(d[3]['ops'][0])
            inner = g.whole_defs(origin_local(g, pl[0])) if pl and not pl[1:] else []
            if len(inner) != 1 or not is_opt(inner[0]) or not g.dominates(inner[0][1], d[1]):
                return None
            if inner[0][3].get('variant') == 'Some':
                somes.append((d[1], inner[0]))
            else:
                nones.add(d[1])
        else:
            if not is_opt(d):
                return None
            if d[3].get('variant') == 'Some':
                somes.append((d[1], d))
            else:
                nones.add(d[1])
    if not somes:
        return None
    skip = set(infeasible_edges(g))
    vias = {bb for bb, _ in somes}
    out = []
    for bb, d in somes:
        ks = []
        for cd in conditions_x(g, bb, sl):
            if cd.kind == 'variant' and cd.subject is not None:
                ks.append(Keep('variant', cd.outcome, subst(cd.subject, m, sl), cd.enum, origin=g.path))
            elif cd.kind == 'bool':
                # a tested flag (`if !matches!(kind(d), Some(A | B)) { return None }`): the decisions under which it is set
                fk = flag_conds(prog, sl, g, cd, _WholeFn(g), None, m, keep, entries=[0])
                ks.extend(fk if fk is not None else [Keep('bool', cd.outcome, value=subst(cd.value, m, sl), origin=g.path)])
            else:
                ks.append(Keep('pred', value=subst(cd.value, m, sl), origin=g.path))
            skip |= {(cd.sw_bb, t) for t in g.succs(cd.sw_bb) if t != cd.target}
        out.append((ks, d))
    # (a failure — `?`, Err(..) — on the way is not a result: what it does to the caller is decided where errors are followed)
    total = not _reaches_end_avoiding(g, 0, vias, nones, skip)
    return [(ks, total, d) for ks, d in out]


class _WholeFn:
    """the body of a function as the region flag_conds works on (instead of a loop body)"""

    def __init__(self, g):
        self.body, self.header = set(range(len(g.blocks))), -1


def merge_alternatives(t, origin, fallback):
    """several accepting results: alternatives that differ in one variant decision on the same subject are one decision"""
    if len(t) == 1:
        ks, total = t[0]
        for k in ks:
            k.total = bool(total and k.total)
        return ks
    base = t[0][0]
    if all(len(ks) == len(base) for ks, _ in t):
        merged = []
        for i, k in enumerate(base):
            col = [ks[i] for ks, _ in t]
            if all(c.kind == 'variant' and k.kind == 'variant' and canon(c.subject) == canon(k.subject) for c in col):
                merged.append(Keep('variant', frozenset().union(*[c.outcome for c in col]), k.subject, k.enum, origin=origin, total=all(tt for _, tt in t)))
            else:
                return fallback
        return merged
    return fallback


def flag_conds(prog, sl, fn, cd, L, nxt, repl, keep, entries=None):
    """a tested boolean that is a local flag assigned constants under decisions inside the loop body
    (`let wanted = matches!(kind(x), Some(A | B)); if wanted { push }`): the decisions under which the flag has the tested
    value, as Keep conditions — the same table truth() gives for the boolean closure of a filter stage.  The flag must be
    (re)assigned on every way from the top of the body to the test (no value of an earlier iteration), and not assigned
    twice; total = every way to the test that does not pass one of the matching assignments takes a complementary edge
    of one of their decisions.  None when the tested value is not of that shape."""
    from .lib.value import subst
    t = fn.blocks[cd.sw_bb]['t']
    pl = op_place(t['o'])
    if t['t'] != 'switch' or not pl or pl[1:]:
        return None
    listed = [v for v, _ in t['targets']]
    want = None
    for v, tb in t['targets']:
        if tb == cd.target and tb != t['else']:
            want = bool(v)
    if want is None and cd.target == t['else'] and len(listed) == 1 and listed[0] in (0, 1):
        want = not bool(listed[0])
    if want is None:
        return None
    local = pl[0]
    for _ in range(6):
        defs = fn.whole_defs(local)
        if len(defs) == 1 and defs[0][0] == 'stmt' and defs[0][3]['r'] in ('use', 'un') and (defs[0][3]['r'] == 'use' or defs[0][3].get('op') == 'Not'):
            src = op_place(defs[0][3]['o'])
            if src and not src[1:] and defs[0][1] in L.body:
                want = want if defs[0][3]['r'] == 'use' else not want
                local = src[0]
                continue
        break
    if fn.partial_defs(local):
        return None
    trues, blocks = [], set()
    for d in defs:
        if not (d[0] == 'stmt' and d[3]['r'] == 'use' and isinstance(d[3].get('o'), dict) and 'k' in d[3]['o']) or d[1] not in L.body:
            return None
        val = d[3]['o']['k'].get('v')
        if not (isinstance(val, dict) and 'bool' in val):
            return None
        blocks.add(d[1])
        if val['bool'] == want:
            trues.append(d)
    if not trues or len(blocks) != len(defs):
        return None
    if entries is None:
        entries = [s for s in fn.succs(nxt) if s in L.body] if nxt is not None else []
    if not entries:
        return None
    # assigned exactly once on every way from the top of the body to the test
    if any(_reaches_end_avoiding(fn, s, blocks, {cd.sw_bb}, set()) for s in entries):
        return None
    for bb in blocks:
        if any(_reaches_end_avoiding(fn, s, {cd.sw_bb, L.header}, blocks, set()) for s in fn.succs(bb)):
            return None
    dead = infeasible_edges(fn)
    skip, out = set(dead), []
    for d in trues:
        ks = []
        for c2 in conditions_x(fn, d[1], sl):
            if c2.sw_bb not in L.body or c2.sw_bb == nxt:
                continue
            if c2.kind == 'variant' and c2.subject is not None:
                ks.append(Keep('variant', c2.outcome, reduce(sl, subst(c2.subject, repl, sl), keep), c2.enum, origin=fn.path))
            elif c2.kind == 'bool':
                ks.append(Keep('bool', c2.outcome, value=subst(c2.value, repl, sl), origin=fn.path))
            else:
                ks.append(Keep('pred', value=subst(c2.value, repl, sl), origin=fn.path))
            skip |= {(c2.sw_bb, x) for x in fn.succs(c2.sw_bb) if x != c2.target}
        out.append(ks)
    total = not any(_reaches_end_avoiding(fn, s, {d[1] for d in trues}, {cd.sw_bb}, skip) for s in entries)
    if len(out) == 1:
        for k in out[0]:
            k.total = total
        return out[0]
    base = out[0]
    if not all(len(ks) == len(base) for ks in out):
        return None
    merged, differing = [], 0
    for i, k in enumerate(base):
        col = [ks[i] for ks in out]
        if not all(c.kind == 'variant' and k.kind == 'variant' and canon(c.subject) == canon(k.subject) for c in col):
            return None
        differing += len({c.outcome for c in col}) > 1
        if differing > 1:
            return None     # (alternatives that differ in more than one decision are not one product of decisions)
        merged.append(Keep('variant', frozenset().union(*[c.outcome for c in col]), k.subject, k.enum, origin=fn.path, total=total))
    return merged


# ---- a local Vec filled in a loop ---------------------------------------------------------------------------------------
def loop_build(prog, sl, E, fn, site, m, keep):
    """Build of the Vec created at `site` in fn (m: fn's parameters in entry terms)"""
    from .lib.value import subst
    b = Build('built', fn)
    b.form = 'loop'
    b.sites.add(site)
    app, reads, other = vec_uses(prog, sl, fn, site)
    if not app and not other:
        b.kind = 'empty'
        return b
    if other or len(app) != 1 or app[0][2] != 'push' or app[0][1] is not fn:
        b.kind = 'opaque'
        return b.bad('unproven', 'the vector is filled by %d append call(s) and handed to %s: not a single push in a loop' % (len(app), sorted({c.name or '?' for c in other}) or 'nothing else'))
    c = app[0][0]
    b.push = c
    b.where = c.where()
    loops = [L for L in E.loops(fn) if c.bb in L.body and c.bb != L.header]
    if len(loops) != 1 or loops[0].collection is None:
        b.kind = 'opaque'
        return b.bad('unproven', 'the push is inside %d loops' % len(loops))
    L = loops[0]
    # the function can only succeed by running the loop to exhaustion
    ex = getattr(L, 'exhaust', None)
    sites = {s.bb for s in success_sites(fn)}
    if ex is None or _reaches_end_avoiding(fn, L.header, set(), sites, {ex}):
        b.bad('violated', 'the loop can be left before the collection is exhausted and the function still succeeds (break / early return of a success)')
    pipeline(prog, sl, L.collection, keep, b)
    b.form = 'loop'
    b.sink = None
    repl = {'__repl__': [(canon(iters.elem_of(L.collection)), b.elem)]}
    repl.update(m)
    b.elem = reduce(sl, subst(sl.operand(fn, c.args[1]), repl, sl), keep)
    nxt = ex[0] if ex else None
    skip = set()
    for cd in conditions(fn, c.bb, sl):
        if cd.sw_bb not in L.body or cd.sw_bb == nxt:
            continue
        skip |= {(cd.sw_bb, t) for t in fn.succs(cd.sw_bb) if t != cd.target}
        if cd.kind == 'variant' and cd.subject is not None:
            b.conds.append(Keep('variant', cd.outcome, reduce(sl, subst(cd.subject, repl, sl), keep), cd.enum, origin=fn.path))
        elif cd.kind == 'bool':
            val = subst(cd.value, repl, sl)
            ks = None
            if cd.outcome is True and val[0] == 'call' and val[1] in prog.fns and val[1] not in keep and len(val[2]) <= prog.fns[val[1]].argc:
                h = prog.fns[val[1]]
                t = truth(prog, sl, h, {(h.path, i): a for i, a in enumerate(val[2])}, keep)
                if t is not None and len(t) == 1:
                    ks = t[0][0]
                    for k in ks:
                        k.total = t[0][1]
            if ks is None:
                ks = flag_conds(prog, sl, fn, cd, L, nxt, repl, keep)
            b.conds.extend(ks if ks is not None else [Keep('bool', cd.outcome, value=val, origin=fn.path)])
        else:
            b.conds.append(Keep('pred', value=subst(cd.value, repl, sl), origin=fn.path))
    # every iteration that passes the conditions pushes: from the top of the body no latch is reached around the push
    # except over a complementary edge of one of the conditions
    body_entry = [t for t in fn.succs(nxt) if t in L.body] if nxt is not None else []
    for t in body_entry:
        if _reaches_end_avoiding(fn, t, {c.bb}, set(L.latches), skip | ({ex} if ex else set())):
            b.bad('unproven', 'an iteration can reach the next one without the push and without failing one of the recognised conditions (compound condition / continue)')
    if m:
        b.coll = subst(b.coll, m, sl)
    return b


# ---- alternatives of a success payload ---------------------------------------------------------------------------------
class Alt:
    def __init__(self, guards, value, frame, m, raw):
        self.guards, self.value, self.frame, self.m, self.raw = guards, value, frame, m, raw


class Payloads:
    """[(decisions, value)] alternatives of a value that is the success payload of something, in the entry function's
    terms; the same table comes out of
        let d = if p.is_file() { read(p).and_then(|x| helper(&x))? } else { Vec::new() };
        let d = helper2(&p)?;     with  fn helper2(p) { if !p.is_file() { return Ok(Vec::new()) } .. helper(&read(p)?) }
    decisions are (True|False, boolean value) and ('some'|'none', option value)"""

    def __init__(self, prog, sl, keep):
        self.prog, self.sl, self.keep = prog, sl, keep
        self.frames = {}        # path -> Fn: every function a value was followed through
        self.sites = set()      # call sites of the helpers that were entered

    def _guards(self, fn, bb, m):
        from .lib.value import subst
        gs = []
        for c in conditions(fn, bb, self.sl):
            if c.kind == 'bool':
                gs.append((c.outcome, subst(c.value, m, self.sl) if m else c.value))
            elif c.kind == 'variant' and c.subject is not None and c.enum == 'std::option::Option' and len(c.outcome) == 1:
                gs.append(('some' if 'Some' in c.outcome else 'none', subst(c.subject, m, self.sl) if m else c.subject))
        return tuple(gs)

    def of_operand(self, fn, operand, m=None, guards=(), depth=0):
        m = m or {}
        self.frames[fn.path] = fn
        pl = op_place(operand)
        if pl and not pl[1:]:
            local = origin_local(fn, pl[0])
            defs = fn.whole_defs(local)
            if len(defs) >= 2 and not (1 <= local <= fn.argc):
                out = []
                for d in defs:
                    if d[0] == 'call' and d[3].decl and d[3].decl.endswith('FromResidual::from_residual'):
                        continue
                    out.extend(self.of_value(fn, self.sl._def_value(fn, d, set(), 0), m, guards + self._guards(fn, d[1], m), depth + 1))
                return out
        return self.of_value(fn, self.sl.operand(fn, operand), m, guards, depth)

    def _component(self, h, operand, proj):
        """the operand holding component `proj` of the tuple `operand` denotes, when that tuple is assembled by one
        `(a, b, ..)` statement of h; else None"""
        pl = op_place(operand)
        if not pl or pl[1:]:
            return None
        defs = h.whole_defs(origin_local(h, pl[0]))
        if len(defs) == 1 and defs[0][0] == 'stmt' and defs[0][3]['r'] == 'agg' and not defs[0][3].get('adt') and proj < len(defs[0][3].get('ops') or ()):
            return defs[0][3]['ops'][proj]
        return None

    def returned(self, h, m, guards, depth, proj=None):
        """alternatives of the success payload of what h returns (round 5: proj = of that component of the payload, a tuple —
        `let (id, deps) = helper(dir)?` is two helpers, one per component)"""
        out = []
        local = origin_local(h, 0)
        take = (lambda v: v) if proj is None else (lambda v: ('field', v, str(proj)))
        for d in h.whole_defs(local):
            gs = guards + self._guards(h, d[1], m)
            if d[0] == 'call':
                if d[3].decl and d[3].decl.endswith('FromResidual::from_residual'):
                    continue
                v = self.sl._def_value(h, d, set(), 0)
                out.extend(self.of_value(h, take(self.sl.mk_unwrap(v, 1)), m, gs, depth + 1))
            elif d[0] == 'stmt':
                rv = d[3]
                if rv['r'] == 'agg' and rv.get('variant') in ('Err', 'None') and rv.get('adt') in ('std::result::Result', 'std::option::Option'):
                    continue
                if rv['r'] == 'agg' and rv.get('variant') in ('Ok', 'Some') and rv.get('adt') in ('std::result::Result', 'std::option::Option') and len(rv['ops']) == 1:
                    op = rv['ops'][0] if proj is None else self._component(h, rv['ops'][0], proj)
                    if op is not None:
                        out.extend(self.of_operand(h, op, m, gs, depth + 1))
                    else:
                        out.extend(self.of_value(h, take(self.sl.operand(h, rv['ops'][0])), m, gs, depth + 1))
                else:
                    v = self.sl._def_value(h, d, set(), 0)
                    out.extend(self.of_value(h, take(self.sl.mk_unwrap(v, 1)), m, gs, depth + 1))
        return out

    def of_value(self, fn, v, m, guards, depth=0):
        from .lib.value import subst
        if v[0] == 'unwrap':
            v = self.sl.mk_unwrap(v[1], 1)
        if v[0] == 'field' and str(v[2]).isdigit() and peel_upd(v[1])[0] == 'unwrap' and depth < 10:
            # one component of the tuple a private helper returns
            u = self.sl.mk_unwrap(peel_upd(v[1])[1], 1)
            c = core(u)
            if u[0] == 'unwrap' and c[0] == 'call' and c[1] in self.prog.fns and c[1] not in self.keep:
                h = self.prog.fns[c[1]]
                if h.kind != 'Closure' and h.ret.startswith(('std::result::Result', 'std::option::Option')):
                    m2 = {(h.path, i): (subst(a, m, self.sl) if m else a) for i, a in enumerate(c[2]) if i < h.argc}
                    alts = self.returned(h, m2, guards, depth + 1, proj=int(v[2]))
                    if alts:
                        self.frames[h.path] = h
                        if site_of(c) is not None:
                            self.sites.add(site_of(c))
                        return alts
        c = core(v)
        if depth < 10 and c[0] == 'call' and c[1] in self.prog.fns and c[1] not in self.keep and v[0] == 'unwrap':
            h = self.prog.fns[c[1]]
            if h.kind != 'Closure' and h.ret.startswith(('std::result::Result', 'std::option::Option')):
                m2 = {(h.path, i): (subst(a, m, self.sl) if m else a) for i, a in enumerate(c[2]) if i < h.argc}
                alts = self.returned(h, m2, guards, depth + 1)
                if alts:
                    self.frames[h.path] = h
                    if site_of(c) is not None:
                        self.sites.add(site_of(c))
                    return alts
        return [Alt(guards, subst(v, m, self.sl) if m else v, fn, m, v)]


def peel_upd(v):
    while v[0] == 'updated':
        v = v[1]
    return v


def build_of(prog, sl, E, alt, keep):
    """Build of one payload alternative"""
    c = core(alt.raw)
    st = site_of(c)
    if c[0] == 'call' and c[1] in VEC_NEW and st is not None:
        if alt.frame is not None and st[0] == alt.frame.path:
            return loop_build(prog, sl, E, alt.frame, st, alt.m or {}, keep)
        return Build('opaque').bad('unproven', 'a vector created in %s, seen from another function' % st[0])
    if c == DEFAULT or (c[0] == 'call' and c[1].endswith('Default::default') and not c[2]):
        return Build('empty', alt.frame)
    if c[0] == 'call' and (c[1] in iters.COLLECTING or c[1].startswith(IT)):
        return pipeline(prog, sl, alt.value, keep)
    return Build('opaque').bad('unproven', 'not a collected iterator nor a vector filled in a loop')


# ---- nothing else touches the collection -------------------------------------------------------------------------------
HARMLESS_MUT = ('::reserve', '::reserve_exact', '::shrink_to_fit', '::shrink_to')


def modifications(prog, sl, fns, elem_types, sites, allowed=()):
    """calls in fns (and their closures) that receive a `&mut Vec<T>` (T in elem_types) and are not the recognised appends:
    [(severity, Call)] — 'violated' when the argument is the collection built at one of `sites` (possibly one alternative of
    it), 'unproven' when it is some other vector of that type"""
    out, seen = [], set()
    want = tuple('&mut std::vec::Vec<%s' % t for t in elem_types) + tuple('&mut [%s]' % t for t in elem_types)

    def hits(v, d=0):
        if d > 6:
            return False
        while v[0] in ('unwrap', 'updated'):
            v = v[1]
        if v[0] == 'phi':
            return any(hits(x, d + 1) for x in v[1])
        return site_of(v) in sites
    for f in fns:
        top = f
        while top.kind == 'Closure' and top.parent in prog.fns:
            top = prog.fns[top.parent]
        for g in scope_fns(prog, top):
            if g.path in seen:
                continue
            seen.add(g.path)
            for c in g.calls:
                if c.indirect or any(c is a for a in allowed):
                    continue
                for a in c.args:
                    pl = op_place(a)
                    if not pl or not g.local_ty(pl[0]).startswith(want):
                        continue
                    if is_transparent(c) or (c.name or '').endswith(HARMLESS_MUT):
                        continue
                    out.append(('violated' if hits(sl.operand(g, a)) else 'unproven', c))
    return out


# ---- failure of a call => failure of every public entry point that runs it ------------------------------------------
LAZY = iters.LAZY_WITH_CLOSURE | TRANSPARENT_STAGES | iters.FEWER | iters.SAME | {IT + 'enumerate', IT + 'chain'}
CLOSURE_RUNS_ON_OK = ('::and_then', '::map')


def _pipeline_sink(prog, f, c):
    """the consumer call the iterator produced by adapter call c ends in (through further lazy adapters), or None"""
    for _ in range(12):
        if not c.dest or len(c.dest) != 1:
            return None
        uses = [u for u in f.uses_of(c.dest[0]) if u[1] != 'drop']
        if len(uses) != 1 or uses[0][1] != 'arg' or uses[0][2] != 0:
            return None
        n = f.call_at(uses[0][0])
        if n is None or n.indirect:
            return None
        if n.decl in LAZY or is_transparent(n):
            c = n
            continue
        return n if n.decl in iters.COLLECTING or n.decl in iters.CONSUME_ALL or n.decl in iters.CONSUME_EACH else None
    return None


def fails_on_error(prog, sl, fn, call):
    """path-sensitive on the one value: when the Result produced by `call` is Err, fn cannot reach a success site — explored
    from the call onwards without the edges that assert success of that very value (the Ok arm of a match on it, the
    Continue arm of its `?`, seen through map_err / transpose)"""
    from .lib.guards import _discr_info
    here = (fn.path, call.bb)
    if call.target is None:
        return False

    def about_call(v):
        for _ in range(12):
            if v[0] in ('updated',):
                v = v[1]
            elif v[0] == 'call' and v[2] and (v[1] in OK_PRESERVING or v[1] == TRY_BRANCH or v[1].endswith('::transpose')):
                v = v[2][0]
            else:
                break
        return site_of(v) == here
    infeasible = set()
    for sb, blk in enumerate(fn.blocks):
        t = blk['t']
        if t['t'] != 'switch':
            continue
        di = _discr_info(fn, sb, t['o'])
        if not di:
            continue
        place, vmap, enum = di
        if enum not in ('std::result::Result', 'std::ops::ControlFlow') or not about_call(sl.place(fn, place)):
            continue
        listed = [v for v, _ in t['targets']]
        good = {v for v, n in vmap.items() if n in ('Ok', 'Continue')}
        for v, tb in t['targets']:
            if v in good:
                infeasible.add((sb, tb))
        if good and not (good & set(listed)) and all(v in listed for v in vmap if v not in good):
            infeasible.add((sb, t['else']))     # the Ok arm is the `otherwise` edge
    if not infeasible:
        return False
    sites = {st.bb for st in success_sites(fn)}
    return not _reaches_end_avoiding(fn, call.target, set(), sites, infeasible)


ERR_KEEPING = ('std::result::Result::<T, E>::map', 'std::result::Result::<T, E>::and_then', 'std::result::Result::<T, E>::map_err',
               'std::result::Result::<T, E>::inspect', 'std::result::Result::<T, E>::inspect_err')


def carried_in_some(prog, sl, f, call):
    """round 5 — f returns Option<Result<..>> and, once `call` has run, can only return `Some(r)` with r the Result of `call`
    seen through combinators that keep its Err (`map`, `and_then`, `map_err`, ..): `filter_map(f)` then yields that Result as
    an element (the fused form of `filter(p).map(f')`), and whoever collects the elements decides what an Err does"""
    if f.kind == 'Closure' or not f.ret.startswith('std::option::Option<std::result::Result<') or call.target is None:
        return False
    sw = some_when(prog, sl, f, {}, ())
    if not sw:
        return False
    vias = set()
    for _, _, d in sw:
        v = peel(sl.operand(f, d[3]['ops'][0]))
        for _ in range(12):
            if v[0] == 'call' and v[2] and v[1] in ERR_KEEPING:
                v = peel(v[2][0])
            else:
                break
        if site_of(v) == (f.path, call.bb):
            vias.add(d[1])
    return bool(vias) and not _reaches_end_avoiding(f, call.target, vias, set(f.return_blocks()), set())


def success_implies(prog, call, sl=None, _seen=None, depth=0, stop=()):
    """(ok, why, failing call): whenever a public entry point that runs `call` succeeds, the Result produced by `call` was
    Ok — at every level the value is `?`-ed / returned / matched with failing non-Ok arms (discard.ok_on_success, or
    fails_on_error when a Slicer is given); a closure's result is the result of the and_then / map it is handed to, or an element of a short-circuiting collect"""
    seen = _seen if _seen is not None else set()
    f = call.fn
    if depth > 14:
        return False, 'call chain too deep at %s' % f.path, None
    wrapped = False
    if not ok_on_success(prog, f, call) and not (sl is not None and fails_on_error(prog, sl, f, call)):
        if sl is not None and carried_in_some(prog, sl, f, call):
            wrapped = True      # the Result travels on as the payload of f's `Some(..)`: decided where f's results are consumed
        else:
            return False, 'the result of %s at %s is not required to be Ok for %s to succeed' % ((call.name or '?').split('::')[-1], call.where(), f.path.split('::')[-1]), call
    if wrapped:
        users = [c for c in prog.callers().get(f.path, [])]
        if not users:
            return False, '%s is never called' % f.path, None
        for c in users:
            if c.name == f.path or c.decl != IT + 'filter_map':
                return False, 'the result of %s is handed on inside the Some(..) that %s returns, which is used at %s: not followed' % ((call.name or '?').split('::')[-1], f.path.split('::')[-1], c.where()), None
            sink = _pipeline_sink(prog, c.fn, c)
            if sink is None or (not (sink.dty or '').startswith('std::result::Result<') and sink.decl not in (IT + 'try_for_each', IT + 'try_fold')):
                return False, 'the results of %s are elements of a pipeline at %s that does not stop at the first failure' % (f.path.split('::')[-1], c.where()), None
            r = success_implies(prog, sink, sl, seen, depth + 1, stop)
            if not r[0]:
                return r
        return True, None, None
    if f.path in seen:
        return True, None, None
    seen.add(f.path)
    if (f.vis == 'pub' or f.path in stop) and f.kind != 'Closure':
        return True, None, None
    users = []
    if f.kind == 'Closure':
        parent = prog.fns.get(f.parent)
        users = [(c, False) for c in (parent.calls if parent is not None else ()) if f in prog.fn_item_args(c)]
    else:
        for c in prog.callers().get(f.path, []):
            if (c, c.name == f.path) not in users:
                users.append((c, c.name == f.path))
    if not users:
        return False, '%s is never called' % f.path, None
    for c, direct in users:
        if direct:
            r = success_implies(prog, c, sl, seen, depth + 1, stop)
        else:
            d = c.decl or ''
            if d.startswith(('std::result::Result::', 'std::option::Option::')) and d.endswith(CLOSURE_RUNS_ON_OK):
                r = success_implies(prog, c, sl, seen, depth + 1, stop)
            elif d in (IT + 'try_for_each', IT + 'try_fold'):
                # the consumer stops at the closure's first failure and returns it
                r = success_implies(prog, c, sl, seen, depth + 1, stop)
            elif d in LAZY:
                sink = _pipeline_sink(prog, c.fn, c)
                if sink is None or (not (sink.dty or '').startswith(('std::result::Result<', 'std::option::Option<')) and sink.decl not in (IT + 'try_for_each', IT + 'try_fold')):
                    return False, 'the results of %s are elements of a pipeline at %s that does not stop at the first failure' % (f.path.split('::')[-1], c.where()), None
                r = success_implies(prog, sink, sl, seen, depth + 1, stop)
            else:
                return False, '%s is handed to %s at %s' % (f.path.split('::')[-1], c.name, c.where()), None
        if not r[0]:
            return r
    return True, None, None


# ====================================================================================================================
# Deepening round — totality of (nested) iterations around an effect, consumption of the build order, and the functions that
# feed the graph.  The interprocedural selection algebra (loops, closures handed to iterator adapters and filter stages are
# the same thing) is the one C15 states its "every node" obligation on (C15_helpers.selection / every_element / expand);
# it is reused here read-only.
# ====================================================================================================================
class NLoop:
    def __init__(self, L, body, latches, exhaust):
        self.header, self.next_call, self.collection = L.header, L.next_call, L.collection
        self.body, self.latches, self.exhaust = body, latches, exhaust


def natural_loops(E, f):
    """E.loops(f) with natural-loop bodies (back edges = edges into the header from blocks it dominates): the library's body
    of an inner loop also holds the blocks of the enclosing loop, which hides the inner loop's exhaustion edge"""
    preds = {}
    for b in range(len(f.blocks)):
        for t in f.succs(b):
            preds.setdefault(t, []).append(b)
    out = []
    for L in E.loops(f):
        h = L.header
        latches = [p for p in preds.get(h, ()) if f.dominates(h, p)]
        body, work = {h}, list(latches)
        while work:
            b = work.pop()
            if b not in body:
                body.add(b)
                work.extend(preds.get(b, ()))
        ex = None
        tb = L.next_call.target
        if tb is not None and f.blocks[tb]['t']['t'] == 'switch':
            t = f.blocks[tb]['t']
            some_t = [b for v, b in t['targets'] if v == 1]
            outs = [b for v, b in t['targets'] if v != 1] + [t['else']]
            outs = [b for b in outs if b not in body and f.blocks[b]['t']['t'] != 'unreachable']
            if some_t and some_t[0] in body and len(set(outs)) == 1:
                ex = (tb, outs[0])
        out.append(NLoop(L, body, latches, ex))
    return out


def reopen(sl, it):
    """an Iteration that C15_helpers.decompose leaves opaque only because of element-wise stages (map / inspect / cloned /
    .. and collect round trips: one output element per input element, in order, none dropped): its selection *can* be
    stated — every element of the base collection, the element value being the stages applied to it"""
    if not it.opaque or it.recv is None:
        return
    v = it.recv
    for _ in range(24):
        v = peel(v)
        if v[0] != 'call' or not v[2]:
            break
        name = v[1]
        if name in ORDERED or name in iters.COLLECTING or name in iters.SAME or name in OK_PRESERVING or \
                (iters._is_source(name) and name.endswith(iters.SAME_ELEMS) and len(v[2]) == 1):
            v = v[2][0]
        else:
            break
    if v[0] == 'call' and v[1].startswith(('std::iter::', 'core::iter::')):
        return      # another adapter (filter, take, zip, chain, ..): stays as decompose left it
    al = iters.alts(sl, it.recv)
    if len(al) == 1 and not al[0][2] and al[0][1] is not None and not it.preds:
        it.base, it.elem, it.opaque = al[0][1], al[0][0], False


def total_iterations(E, e, tolerate=None):
    """effect e runs for *every* combination of elements of the (possibly nested) iterations around it, on every run that
    does not fail: (verdict 'ok'|'violated'|'unproven'|'none', reason, [Iteration] outermost first).  Generalises
    C15_helpers.every_element to nested loops: per loop no filter stage / truncating adapter / per-element decision, from
    the top of each body every path to the next iteration (of this or an enclosing loop) or to a success exit goes through
    the next inner loop resp. the call, and no loop can be left other than by exhaustion without failing.
    tolerate(cond, substituted subject) -> True for per-element decisions that are accepted (e.g. "the step before succeeded")."""
    from . import C15_helpers as H15
    from .lib.value import vstr
    sl = E.slicer
    sel = selection(E, e)
    its = sel.iterations
    if not its:
        return 'none', 'not inside an iteration', its
    for it in its:
        reopen(sl, it)
    for it in its:
        if it.recv is None:
            return 'unproven', 'a loop whose collection is not known', its
        if any(fl == 'trunc' for _, _, fl in iters.alts(sl, it.recv)) or any(st[3] for st in iters.stages(peel(it.recv), with_stop=True)):
            return 'violated', 'a truncating adapter (take / skip / take_while / map_while / ..) drops elements by position: %s' % vstr(it.recv)[:100], its
        if it.preds:
            return 'violated', 'a filter stage drops elements: %s' % '; '.join(vstr(p[0])[:80] for p in it.preds), its
        if it.opaque:
            return 'unproven', 'an adapter whose selection cannot be stated: %s' % vstr(it.recv)[:100], its
    ls = H15.levels(e)
    guards = [(j, cd, vs) for j, cd, vs in sel.guards
              if not (tolerate is not None and cd.subject is not None and tolerate(cd, E.subst(cd.subject, ls[j][1])))
              and not failing_guard(E, ls[j][0].fn, cd)]
    if guards:
        return 'violated', 'runs only under a per-element condition: %s' % '; '.join(vstr(vs[0][0])[:80] for _, _, vs in guards), its
    inside = False          # an iteration was opened at an earlier level
    prev_adapter = False    # the previous level's call is the iterator adapter / consumer whose closure this level's function is
    for j, (c, m) in enumerate(ls):
        f = c.fn
        lps = sorted((L for L in natural_loops(E, f) if c.bb in L.body and c.bb != L.header), key=lambda L: -len(L.body))
        sites = {s.bb for s in E.sites(f)} or set(f.return_blocks())
        if inside:
            # below the outermost iteration: the callee is entered every time and cannot succeed without reaching the call
            if not prev_adapter and not H15._direct(E, ls[j - 1][0], f) and not runs_unless_failed(E.prog, ls[j - 1][0], f):
                return 'unproven', 'reached through an indirect call', its
            if not always_through(f, 0, lps[0].header if lps else c.bb, sites):
                return 'violated', '%s can succeed without reaching it' % f.path, its
        for n, L in enumerate(lps):
            target = lps[n + 1].header if n + 1 < len(lps) else c.bb
            tb = L.next_call.target
            entries = [s for s in f.succs(tb) if s in L.body] if tb is not None else []
            ex = getattr(L, 'exhaust', None)
            if not entries or ex is None:
                return 'unproven', 'loop shape not recognised', its
            heads = {x.header for x in lps[:n + 1]}
            if not all(always_through(f, s, target, heads | sites, [ex]) for s in entries):
                return 'violated', 'an iteration can go on to the next element (or leave the loop successfully) without reaching it', its
            # leaving the loop other than by exhaustion: an enclosing loop's next iteration or a success exit reached from
            # the header without the exhaustion edge
            outer = {x.header for x in lps[:n]}
            if _reaches_end_avoiding(f, L.header, set(), outer | sites, {ex}):
                return 'violated', 'the loop can be left before its collection is exhausted (break / early success) and the function still succeeds', its
        prev_adapter = sum(1 for it in its if it.level == j) > len(lps)
        inside = inside or bool(lps) or prev_adapter
    return 'ok', '', its


def selection(E, e):
    """C15_helpers.selection on natural loops: the iterations around effect e are the loops whose body (the blocks from which
    the loop's latch is reached without leaving it) holds the call — a loop that merely *precedes* the call inside an
    enclosing loop (a search loop, a loop filling a buffer) is not an iteration the effect runs in — plus the closures
    handed to iterator adapters / consumers; the per-element decisions are the branch decisions inside the outermost one"""
    from . import C15_helpers as H15
    from .lib.paths import strip
    sl = E.slicer
    ls = H15.levels(e)
    its, guards = [], []
    for j, (c, m) in enumerate(ls):
        f = c.fn
        inside = bool(its)
        body = None
        skip_sites = set()
        for L in sorted((L for L in natural_loops(E, f) if c.bb in L.body and c.bb != L.header), key=lambda L: -len(L.body)):
            if L.collection is None:
                its.append(H15.Iteration(j, None, None, None, [], True))
            else:
                its.append(H15._iteration(E, j, E.subst(L.collection, m)))
            body = L.body if body is None else body
            skip_sites.add((f.path, L.header))
        for cd in conditions(f, c.bb, sl):
            if not (inside or (body is not None and cd.sw_bb in body)) or H15._is_continue(cd):
                continue
            s = strip(cd.subject) if cd.subject is not None else None
            if s is not None and s[0] == 'call' and len(s) == 4 and s[3] in skip_sites:
                continue        # the loop's own `next() is Some`
            views = [(E.subst(v, m), oc) for v, oc in cd.views()] if cd.kind == 'bool' else [(E.subst(cd.value, m), cd.outcome)]
            guards.append((j, cd, views))
        if j + 1 < len(ls) and not c.indirect and (c.decl or '').startswith('std::iter::'):
            g = ls[j + 1][0].fn
            d = c.decl
            recv = None
            if d in iters.LAZY_WITH_CLOSURE and len(c.args) == 2:
                recv = sl.operand(f, c.args[0])
            elif d in iters.CONSUME_EACH or d in iters.CONSUME_ALL:
                ridx = 1 if d == 'std::iter::Extend::extend' else 0
                if ridx < len(c.args):
                    recv = sl.operand(f, c.args[ridx])
                    for name, clv, rv in iters.stages(recv):
                        if clv[0] == 'closure' and clv[1] == g.path:
                            recv = rv
                            break
            if recv is not None:
                its.append(H15._iteration(E, j, E.subst(recv, m)))
    return H15.Selection(its, guards)


def failing_guard(E, f, cd):
    """the decision is "go on, or fail": no other edge of its switch can reach a success exit of f, the next iteration of a
    loop, or any further decision-free way back to normal execution — `let Some(x) = r else { return Err(..) }`,
    `match r { Ok(v) => v, Err(e) => return Err(..) }`, `if bad { return Err(..) }` are what `?` is.  (That the failure of f
    fails the entry function is — as for `?` — the business of the error-propagation obligations.)"""
    sites = {s.bb for s in E.sites(f)} or set(f.return_blocks())
    if not f.ret.startswith(('std::result::Result<', 'std::option::Option<', 'std::ops::ControlFlow<')):
        return False        # nothing to fail with
    heads = {c.bb for c in f.calls if not c.indirect and c.decl == IT + 'next'}
    others = [t for t in f.succs(cd.sw_bb) if t != cd.target]
    if not others:
        return False
    for t in others:
        if f.blocks[t]['t']['t'] == 'unreachable':
            continue
        r = f.reachable(t)
        if r & sites or r & heads or cd.target in r:
            return False
    return True


RUNS_ON_OK = ('std::result::Result::<T, E>::map', 'std::result::Result::<T, E>::and_then', 'std::result::Result::<T, E>::inspect',
              'std::option::Option::<T>::map', 'std::option::Option::<T>::and_then', 'std::option::Option::<T>::inspect')


def runs_unless_failed(prog, call, g):
    """closure g is handed to `r.map(..)` / `r.and_then(..)` on a Result / Option whose own result has to be Ok / Some for
    the calling function to succeed (it is `?`-ed, returned, matched with failing other arms): the receiver was Ok / Some
    then, so the closure ran — `r.map(|v| effect(v))?` is `let v = r?; effect(v)`"""
    if call.indirect or not (set(call.names()) & set(RUNS_ON_OK)) or len(call.args) != 2:
        return False
    if g not in prog.fn_item_args(call):
        return False
    return ok_on_success(prog, call.fn, call)


def node_element(elem, marker):
    """the sub-value of a loop element that is the element of the iterated collection itself (`(i, node)` of an enumerate,
    a tuple made by a map stage ..): unwrap(next(<something containing a call of `marker`>))"""
    best = None
    for x in walk(elem):
        if x[0] == 'unwrap' and is_call(x[1], 'Iterator::next') and any(y[0] == 'call' and y[1] == marker for y in walk(x)):
            best = x      # (walk is pre-order: the last hit is the innermost)
    return best


def in_terms_of(sl, v, elem, symbol):
    return subst(v, {'__repl__': [(canon(elem), symbol)]}, sl)


def occurrences(v, symbol, field):
    """(number of occurrences of symbol in v, number of them that are `symbol.field`)"""
    n = k = 0
    for x in walk(v):
        if x == symbol:
            n += 1
        elif x[0] == 'field' and x[1] == symbol and x[2] == field:
            k += 1
    return n, k


MAP_READS = ('::get', '::contains_key', '::iter', '::values', '::keys', '::len', '::is_empty', '::into_iter', '::range', '::first_key_value', '::last_key_value', '::get_key_value')


def map_mutations(prog, sl, fn, is_map, allowed):
    """calls in fn and its closures that receive the map mutably and are not the recognised inserts"""
    out = []
    for g in scope_fns(prog, fn):
        for c in g.calls:
            if c.indirect or not c.args or any(c is a for a in allowed) or is_transparent(c):
                continue
            for a in c.args:
                pl = op_place(a)
                if not pl or not g.local_ty(pl[0]).startswith('&mut std::collections::BTreeMap'):
                    continue
                if is_map(peel(sl.operand(g, a))) and not (c.name or '').endswith(MAP_READS):
                    out.append(c)
    return out


_SUBTYPE_SLICERS = {}


def subtype_slicer(sl):
    """a Slicer for which `x as T (Subtype)` casts are transparent.  rustc inserts such a cast where a closure that captures a
    `&mut` borrow is handed to a generic adapter (`iter.try_for_each(|n| { map.insert(..) })`); the library's slicer keeps it
    as ('cast', closure, ty), which hides the closure from the effect expansion.  (Wanted in lib/value.py: treat
    'Subtype' like 'Unsize' in Slicer._rvalue.)"""
    from .lib.value import Slicer
    key = id(sl)
    if key not in _SUBTYPE_SLICERS:
        class _S(Slicer):
            def _rvalue(self, fn, rv, seen, d, at):
                if rv['r'] == 'cast' and 'Subtype' in str(rv.get('kind')):
                    return self.operand(fn, rv['o'], seen, d)
                return Slicer._rvalue(self, fn, rv, seen, d, at)
        _SUBTYPE_SLICERS[key] = (sl, _S(sl.prog, sl.max_depth))
    return _SUBTYPE_SLICERS[key][1]


# ====================================================================================================================
# Round 4 — normal forms that make whole families of spellings one thing
#
#   search loops      `let mut r = None; for x in C { if P(x) { r = Some(f(x)); break } }` (and the helper form
#                     `for x in C { if P(x) { return Some(f(x)) } } None`) *is* `C.find(P).map(f)`: NormalSlicer gives the
#                     result local that value — ('call', Iterator::find, (C, ('lambda', x, P(x))), site of the loop's next())
#                     — so everything stated on find() (find_by_id, lookup_of, R4's ok_or / None arm) holds for both
#   failing guards    a per-element decision whose other branch cannot reach a success exit or the next iteration
#                     (`let Some(i) = r else { return Err(..) }`, `match r { Ok(v) => v, Err(e) => return Err(..) }`) is what
#                     `?` is: not a selection of elements (total_iterations)
#   combinator levels `r.map(|v| effect)` / `r.and_then(..)` on a Result / Option whose own result must be Ok / Some for the
#                     function to succeed runs the closure on every run that does not fail: `let v = r?; effect`
#   mapped emission   a returned `V.into_iter().map(f).collect()` over a local vector V that is only pushed to is V's pushes
#                     with f applied (emitted(): get_dependencies split into an index-collecting helper and a final map)
# ====================================================================================================================
FIND = IT + 'find'
OPT_MAP = 'std::option::Option::<T>::map'


class NatLoop:
    def __init__(self, fn, call, body, latches, exhaust, entries):
        self.fn, self.next_call, self.header, self.body, self.latches, self.exhaust, self.entries = fn, call, call.bb, body, latches, exhaust, entries


_NAT = {}


def nat_loops(fn):
    """natural loops around an Iterator::next call (CFG only, no values)"""
    key = id(fn)
    if key in _NAT and _NAT[key][0] is fn:
        return _NAT[key][1]
    preds = {}
    for b in range(len(fn.blocks)):
        for t in fn.succs(b):
            preds.setdefault(t, []).append(b)
    out = []
    for c in fn.calls:
        if c.indirect or c.decl != IT + 'next':
            continue
        h = c.bb
        latches = [p for p in preds.get(h, ()) if fn.dominates(h, p)]
        if not latches:
            continue
        body, work = {h}, list(latches)
        while work:
            b = work.pop()
            if b not in body:
                body.add(b)
                work.extend(preds.get(b, ()))
        ex, entries = None, []
        tb = c.target
        if tb is not None and fn.blocks[tb]['t']['t'] == 'switch':
            t = fn.blocks[tb]['t']
            some_t = [b for v, b in t['targets'] if v == 1]
            outs = [b for v, b in t['targets'] if v != 1] + [t['else']]
            outs = [b for b in outs if b not in body and fn.blocks[b]['t']['t'] != 'unreachable']
            if some_t and some_t[0] in body and len(set(outs)) == 1:
                ex = (tb, outs[0])
                entries = [s for s in fn.succs(tb) if s in body]
        out.append(NatLoop(fn, c, body, latches, ex, entries))
    _NAT[key] = (fn, out)
    return out


class Search:
    """one search loop: `local` is None unless the loop found an element, then Some(payload of the first one found)"""

    def __init__(self, fn, local, loop, some_def, none_def, sw_bb, target, form):
        self.fn, self.local, self.loop, self.some_def, self.none_def, self.sw_bb, self.target, self.form = fn, local, loop, some_def, none_def, sw_bb, target, form
        self.site = (fn.path, loop.next_call.bb)


def _option_def(fn, d, depth=0):
    """variant name when whole definition d writes an Option literal (directly, or a temporary holding one): 'Some'|'None'"""
    if d[0] != 'stmt' or depth > 3:
        return None
    rv = d[3]
    if rv['r'] == 'agg' and rv.get('adt') == 'std::option::Option':
        return rv.get('variant')
    if rv['r'] == 'use':
        pl = op_place(rv['o'])
        if pl and not pl[1:] and not (1 <= pl[0] <= fn.argc):
            ds = fn.whole_defs(pl[0])
            if len(ds) == 1 and ds[0][1] == d[1] and not fn.partial_defs(pl[0]):
                return _option_def(fn, ds[0], depth + 1)
    return None


def _straight_to(fn, start, goal):
    """start reaches goal over blocks with a single (normal) successor: nothing is decided on the way"""
    b = start
    for _ in range(12):
        if b == goal:
            return True
        ss = fn.succs(b)
        if len(ss) != 1 or fn.blocks[b]['t']['t'] == 'switch':
            return False
        b = ss[0]
    return False


def find_searches(fn):
    """{local: Search}: locals that hold the result of a search loop.  CFG conditions (values are checked by the slicer):
         - the local has exactly two whole definitions, `None` and `Some(..)`, no partial one, and is never borrowed mutably
         - the loop is left only by exhaustion and over one edge of one switch inside the body; that edge leads straight
           to the `Some` assignment, which leaves the loop for good; every iteration passes that switch
         - break form: `None` is assigned before the loop on every way into it (also on the way from one run of the loop
           to the next), the local is read only after the loop;
           return form: the local is the return value, `None` is what every way from the exhausted loop to the return assigns"""
    out = {}
    loops = nat_loops(fn)
    if not loops:
        return out
    rets = set(fn.return_blocks())
    for local in range(0, len(fn.locals)):
        if 1 <= local <= fn.argc:
            continue
        defs = fn.whole_defs(local)
        if len(defs) != 2 or fn.partial_defs(local):
            continue
        kinds = [_option_def(fn, d) for d in defs]
        if sorted(k or '' for k in kinds) != ['None', 'Some']:
            continue
        sd, nd = (defs[0], defs[1]) if kinds[0] == 'Some' else (defs[1], defs[0])
        bS, bN = sd[1], nd[1]
        uses = fn.uses_of(local)
        if any(u[1] == 'stmt' and u[3] in ('refmut', 'rawptr') for u in uses):
            continue
        for L in loops:
            h = L.header
            if L.exhaust is None or bS in L.body or not fn.dominates(h, bS) or bN in L.body:
                continue
            exits = {(u, v) for u in L.body for v in fn.succs(u) if v not in L.body and fn.blocks[v]['t']['t'] != 'unreachable'}
            exits.discard(L.exhaust)
            if len(exits) != 1:
                continue
            (sw, tgt), = exits
            if fn.blocks[sw]['t']['t'] != 'switch' or sw == L.exhaust[0] or not _straight_to(fn, tgt, bS):
                continue
            if not all(always_through(fn, s, sw, set(L.latches) | {h}) for s in L.entries) or not L.entries:
                continue
            if h in fn.reachable(bS) and _reaches_end_avoiding(fn, bS, {bN} if local else set(), {h}, set()):
                continue    # (the Some assignment does not leave the loop for good)
            out_b = L.exhaust[1]
            if local == 0:
                if not always_through(fn, out_b, bN, rets) or bN in fn.reachable(bS) or bS in fn.reachable(bN) or fn.dominates(bN, h):
                    continue
                form = 'return'
            else:
                if not fn.dominates(bN, h):
                    continue
                # no stale value: from the loop's exits the loop is not entered again without passing the None assignment
                if any(_reaches_end_avoiding(fn, v, {bN}, {h}, set()) for v in (out_b, bS)):
                    continue
                # read only after the loop has been left
                if any(u[0] in L.body or not fn.dominates(h, u[0]) or (u[0] != bS and _reaches_end_avoiding(fn, u[0], {h}, {bS}, set())) for u in uses if u[1] != 'drop'):
                    continue
                form = 'break'
            out[local] = Search(fn, local, L, sd, nd, sw, tgt, form)
            break
    return out


def replace_exact(v, old, new):
    """v with every occurrence of the very value `old` (call sites included) replaced"""
    if v == old:
        return new
    if not isinstance(v, tuple) or not v or (isinstance(v[0], str) and v[0] in ATOMS):
        return v
    out = tuple(replace_exact(x, old, new) if isinstance(x, tuple) else x for x in v)
    return out if out != v else v


_NORMAL = {}


def normal_slicer(sl):
    """the Slicer the rule's normal forms are stated on: `x as T (Subtype)` casts transparent (see subtype_slicer), and the
    result of a search loop is the find() it spells out"""
    from .lib.value import Slicer
    if getattr(sl, 'searches', None) is not None:
        return sl
    key = id(sl)
    if key in _NORMAL and _NORMAL[key][0] is sl:
        return _NORMAL[key][1]

    class _N(Slicer):
        def __init__(self, prog, max_depth, inner=False):
            Slicer.__init__(self, prog, max_depth)
            self._searches, self._busy = {}, set()
            if not inner:
                self._sym = _N(prog, max_depth, True)       # closure bodies (apply_closure) get the same normal forms
                self._sym.symbolic_upvars = True

        def searches(self, fn):
            if fn.path not in self._searches:
                try:
                    self._searches[fn.path] = find_searches(fn)
                except Exception:
                    self._searches[fn.path] = {}
            return self._searches[fn.path]

        def _rvalue(self, fn, rv, seen, d, at):
            if rv['r'] == 'cast' and 'Subtype' in str(rv.get('kind')):
                return self.operand(fn, rv['o'], seen, d)
            return Slicer._rvalue(self, fn, rv, seen, d, at)

        def _local(self, fn, local, seen, d):
            s = self.searches(fn).get(local)
            key = (fn.path, local)
            if s is not None and key not in self._busy:
                self._busy.add(key)
                try:
                    v = self._search_value(fn, s, seen, d)
                finally:
                    self._busy.discard(key)
                if v is not None:
                    return v
            return Slicer._local(self, fn, local, seen, d)

        def _search_value(self, fn, s, seen, d):
            L = s.loop
            c = L.next_call
            rp = op_place(c.args[0]) if c.args else None
            if not rp or not c.dest or len(c.dest) != 1:
                return None
            coll = self.place(fn, rp, seen, d)
            elem = self.mk_unwrap(self.local(fn, c.dest[0], seen, d), 1)
            some = self._def_value(fn, s.some_def, seen, d)
            if not (some[0] == 'agg' and some[2] == 'Some' and len(some[3]) == 1) or elem[0] != 'unwrap':
                return None
            payload = some[3][0][1]
            cds = [cd for cd in conditions(fn, s.some_def[1], self) if cd.sw_bb == s.sw_bb and cd.target == s.target]
            if len(cds) != 1 or cds[0].kind != 'bool' or not isinstance(cds[0].outcome, bool):
                return None
            body = cds[0].value if cds[0].outcome else ('un', 'Not', cds[0].value)
            if any(x[0] == 'unknown' for x in walk(body)):
                return None
            v = ('call', FIND, (coll, ('lambda', elem, body)), s.site)
            if payload != elem:
                v = ('call', OPT_MAP, (v, ('lambda', elem, payload)), None)
            return v

    n = _N(sl.prog, sl.max_depth)
    _NORMAL[key] = (sl, n)
    return n


def search_at(sl, fn, site):
    """the Search whose loop iterates at `site`, when sl states it as a find()"""
    get = getattr(sl, 'searches', None)
    if get is None:
        return None
    for s in get(fn).values():
        if s.site == site:
            v = sl.local(fn, s.local)
            if any(x[0] == 'call' and x[1] == FIND and site_of(x) == site for x in walk(v)):
                return s
    return None


def emitted(prog, sl, fn):
    """the success payload of what fn returns is a local vector V seen through element-wise stages only — `V` itself,
    `V.into_iter().map(f).collect()`, with the helper that built V inlined and `r.map(|v| ..)` / `?` / and_then applied:
    (creation site of V, function mapping a value pushed to V to the element that is returned), else None"""
    pay = sl.mk_unwrap(reduce(sl, sl.local(fn, 0)), 1)
    alts = list(pay[1]) if pay[0] == 'phi' else [pay]
    found = set()
    maps = []
    for a in alts:
        c = core(a)
        if c[0] == 'call' and c[1] in VEC_NEW and site_of(c) is not None:
            found.add(site_of(c))
            maps.append(None)
            continue
        al = iters.alts(sl, a)
        if len(al) != 1 or al[0][2] or al[0][1] is None or not in_order(a):
            return None
        coll = core(al[0][1])
        if not (coll[0] == 'call' and coll[1] in VEC_NEW and site_of(coll) is not None):
            return None
        found.add(site_of(coll))
        maps.append((iters.elem_of(al[0][1]), al[0][0]))
    if len(found) != 1 or len({canon(m) if m is not None else None for m in maps}) != 1:
        return None
    m = maps[0]

    def through(pushed):
        return pushed if m is None else reduce(sl, subst(m[1], {'__repl__': [(canon(m[0]), pushed)]}, sl))
    return next(iter(found)), through


def vec_mutations(prog, fns, allowed_sites):
    """calls in fns that receive some vector / slice mutably and are not the recognised appends"""
    out = []
    for g in fns:
        for c in g.calls:
            if c.indirect or (g.path, c.bb) in allowed_sites or is_transparent(c) or (c.name or '').endswith(HARMLESS_MUT):
                continue
            for a in c.args:
                pl = op_place(a)
                if pl and g.local_ty(pl[0]).startswith(('&mut std::vec::Vec<', '&mut [', '&mut std::collections::VecDeque<')):
                    out.append(c)
                    break
    return out
