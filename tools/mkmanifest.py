#!/usr/bin/env python3
"""regenerate MANIFEST.json from the table below (claimed properties, technique, notes)"""
import json, os
ROOT = os.path.join(os.path.dirname(os.path.abspath(__file__)), '..')
props = [json.loads(l) for l in open(os.path.join(ROOT, 'properties.jsonl'))]
CLAIMS = json.load(open(os.path.join(ROOT, 'tools', 'claims.json')))
checks = []
for p in props:
    c = CLAIMS.get(p['id'])
    if not c or not c.get('claimed'):
        continue
    checks.append({
        'property_id': p['id'],
        'quick_cmd': './check %s --tier quick' % p['id'],
        'thorough_cmd': './check %s --tier thorough' % p['id'],
        'evidence_file': '/verif/evidence/%s.json' % p['id'],
        'replay_cmd_template': './check replay {path}',
        'engine': c.get('engine', 'cnbfacts+rules'),
        'level_claimed': {'category': 'other', 'text': c['text'], 'design_ref': 'DESIGN.md §5 ' + p['id']},
        'level_note': c['note'],
        'technique': c['technique'],
    })
claimed = sorted(c['property_id'] for c in checks)
m = {
    'version': 1,
    'setup_cmd': './setup.sh',
    'hooks': {'guard': 'heroku_libcnb_rs_verif',
              'enable': 'none needed: the analysis reads what the normal build compiles (cargo +nightly check with RUSTC_WORKSPACE_WRAPPER=driver/target/release/cnbfacts); no source hooks exist',
              'baseline_off_cmd': 'cd /repo && cargo nextest run --workspace --no-fail-fast --tool-config-file pb:/w/lib/nextest.toml --profile pb --test-threads 8 --offline || cargo test --workspace --no-fail-fast --offline',
              'source_commits': [], 'add_only': True},
    'engines': [
        {'name': 'cnbfacts', 'path': 'driver/', 'serves_properties': claimed,
         'kind_free_text': 'rustc_private compiler driver exporting type-checked MIR, ADTs, impls, consts and macro bodies of every workspace crate as JSON facts'},
        {'name': 'rules', 'path': 'rules/', 'serves_properties': claimed,
         'kind_free_text': 'Python rule library over the facts: CFG/dominators, symbolic value slicing, branch guards, Result-fate analysis, MUST/MAY effect summaries, decision tables, serde schema extraction'},
        {'name': 'regexlang', 'path': 'regexlang/', 'serves_properties': ['C09'] if 'C09' in claimed else [],
         'kind_free_text': 'regex-automata based language inclusion/equivalence of the validating regexes against the spec grammar'},
        {'name': 'selftest', 'path': 'selftest/', 'serves_properties': claimed,
         'kind_free_text': 'seeded mutants applied to scratch copies; every armed rule must fire on its mutant (thorough tier)'},
    ],
    'checks': checks,
    'notes': 'Static analysis only: no check executes repository code. Partial claims: each evidence file lists the clauses decided and those not decided. Known findings: known_findings.json.',
    'not_applicable': [{'property_id': p['id'], 'reason': CLAIMS.get(p['id'], {}).get('na_reason', 'check under construction in this session (static rules planned in DESIGN.md §5); not yet claimed')}
                       for p in props if p['id'] not in claimed],
}
json.dump(m, open(os.path.join(ROOT, 'MANIFEST.json'), 'w'), indent=1)
print('claimed:', claimed)
