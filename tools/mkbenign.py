#!/usr/bin/env python3
"""author a behaviour-preserving variant patch (selftest/benign/<Cxx-name>.patch): checks must stay silent on it.
usage: mkbenign.py <Cxx[,Cyy]-name> <file> <old> <new> [...]"""
import subprocess, sys, os
name = sys.argv[1]
trip = sys.argv[2:]
assert len(trip) % 3 == 0
st = subprocess.run(['git', '-C', '/repo', 'status', '--porcelain'], stdout=subprocess.PIPE, text=True).stdout
assert not st.strip(), '/repo not clean: ' + st
try:
    for i in range(0, len(trip), 3):
        f, old, new = trip[i:i+3]
        p = os.path.join('/repo', f)
        s = open(p).read()
        assert s.count(old) == 1, 'pattern count %d in %s: %r' % (s.count(old), f, old)
        open(p, 'w').write(s.replace(old, new))
    d = subprocess.run(['git', '-C', '/repo', 'diff'], stdout=subprocess.PIPE, text=True).stdout
    out = os.path.join(os.path.dirname(__file__), '..', 'selftest', 'benign', name + '.patch')
    open(out, 'w').write(d)
    print('wrote', out)
finally:
    subprocess.run(['git', '-C', '/repo', 'checkout', '--', '.'])
