#!/usr/bin/env python3
"""Freeze the function names + signatures of the pinned tree (rules/tables/baseline_fns.json).  Run only after a
deliberate change of /repo (a `fix:` commit); rules/lib/mir.py uses the table to read renamed/moved private helpers
under their baseline names."""
import glob, json, os, sys
ROOT = os.path.dirname(os.path.dirname(os.path.abspath(__file__)))
sys.path.insert(0, ROOT)
from rules.lib.mir import fn_sig, adt_sig
out = {'adts': {}, 'fns': {}}
for cfg in ('P', 'W'):
    for fp in sorted(glob.glob(os.path.join(ROOT, '.cache', 'facts-' + cfg, '*.json'))):
        d = json.load(open(fp))
        for fj in d['fns']:
            if fj['kind'] in ('Fn', 'AssocFn') and not fj['path'].startswith('<'):
                out['fns'].setdefault(fj['path'], fn_sig(fj, d['crate']))
        for a in d['adts']:
            if not a.get('in_body') and a['path'].split('::')[0] == d['crate']:
                out['adts'].setdefault(a['path'], adt_sig(a, d['crate']))
with open(os.path.join(ROOT, 'rules', 'tables', 'baseline_fns.json'), 'w') as fh:
    json.dump(out, fh, indent=0, sort_keys=True)
print('baseline: %d functions, %d types' % (len(out['fns']), len(out['adts'])))
