#!/usr/bin/env python3
"""write seeded/<id>/meta.json from the confirmation outputs. usage: seed_meta.py <id> <property> <needs> <caught-by or MISSED> [note]"""
import json, os, re, sys
sid, prop, needs, caught = sys.argv[1:5]
note = sys.argv[5] if len(sys.argv) > 5 else ''
d = '/verif/seeded/' + sid
rd = lambda f: open(os.path.join(d, f)).read() if os.path.exists(os.path.join(d, f)) else ''
checks = rd('checks.txt')
keys = re.findall(r'^(?:VIOLATED|UNPROVEN) (\S+)', checks, re.M)
meta = {
    'id': sid, 'breaks_property': prop, 'author': 'independent sub-agent (given only the property text and a scratch worktree)',
    'needs_to_manifest': needs,
    'confirmed': {
        'baseline_with_change': rd('baseline_with_change.txt').strip().splitlines()[-1:] ,
        'demo_with_change_exit': re.findall(r'exit=(\d+)', rd('demo_with_change.txt'))[-1:],
        'demo_without_change_exit': re.findall(r'exit=(\d+)', rd('demo_without_change.txt'))[-1:],
        'how': 'tools/confirm_seed.sh: nextest baseline (189 tests) in the scratch worktree with the change; demo test with and without the change',
    },
    'checks_run': sorted(set(re.findall(r'^(C\d+):', checks, re.M))),
    'reported_keys': keys,
    'caught_by': caught,
    'note': note,
}
json.dump(meta, open(os.path.join(d, 'meta.json'), 'w'), indent=1)
print(json.dumps(meta, indent=1)[:600])
