#!/usr/bin/env python3
"""developer tool: pretty-print exported MIR of functions matching a regex"""
import sys, os, re
sys.path.insert(0, os.path.join(os.path.dirname(__file__), '..'))
from rules.lib.mir import Program, dump_fn
import hashlib
_repo = os.environ.get('VERIF_REPO', '/repo')
_sfx = '' if _repo == '/repo' else '-' + hashlib.sha1(_repo.encode()).hexdigest()[:8]
facts = os.environ.get('FACTS', os.path.join(os.path.dirname(__file__), '..', '.cache', 'facts-P' + _sfx))
p = Program(facts)
if len(sys.argv) > 2 and sys.argv[1] == '-l':
    for path in sorted(p.fns):
        if re.search(sys.argv[2], path): print(path)
    sys.exit(0)
for path in sorted(p.fns):
    if re.search(sys.argv[1], path):
        dump_fn(p.fns[path]); print()
