#!/usr/bin/env python3
"""usage: tools/benign_batch.py <dir-glob of candidate patches> [Cxx ...]
Run the checks against every candidate behaviour-preserving patch (scratch copies, 8 workers with private cargo
target dirs) and print which ones are not silent.  Results in /tmp/benign-results/<name>.txt."""
import glob, os, re, subprocess, sys, tempfile, shutil, hashlib, queue
from concurrent.futures import ThreadPoolExecutor
ROOT = os.path.dirname(os.path.dirname(os.path.abspath(__file__)))
sys.path.insert(0, os.path.join(ROOT, 'selftest'))
import run as st
pats = sorted(glob.glob(sys.argv[1]))
props = sys.argv[2:] or ['C%02d' % i for i in range(1, 21)]
os.makedirs('/tmp/benign-results', exist_ok=True)
st.worker_caches(8)

def one(p):
    m = re.search(r'wt([bmc])-(C\d+)-out/variant-(\d+)', p)
    name = '%s-%s%s' % (m.group(2), {'b': 'v', 'm': 'm', 'c': 'w'}[m.group(1)], m.group(3)) if m else os.path.basename(p)[:-6]
    cache = st.CACHES.get()
    scratch = tempfile.mkdtemp(prefix='verif-bb-')
    work = os.path.join(scratch, 'repo')
    lines = []
    try:
        subprocess.run(['rsync', '-a', '--exclude', '/target', '--exclude', '/.git', '/repo/', work + '/'], check=True)
        subprocess.run(['git', 'init', '-q'], cwd=work)
        ap = subprocess.run(['git', 'apply', '--whitespace=nowarn', p], cwd=work)
        if ap.returncode != 0:
            return name, ['PATCH-DOES-NOT-APPLY']
        for prop in props:
            env = dict(os.environ, VERIF_REPO=work, VERIF_NO_EVIDENCE='1', VERIF_CACHE=cache)
            r = subprocess.run([os.path.join(ROOT, 'check'), prop], env=env, cwd=ROOT, stdout=subprocess.PIPE, stderr=subprocess.STDOUT, text=True)
            if r.returncode != 0:
                lines += [l[:500] for l in r.stdout.splitlines() if re.match(r'(VIOLATED|UNPROVEN|C\d+:|check:|Traceback|\w+Error)', l)]
    finally:
        shutil.rmtree(scratch, ignore_errors=True)
        st.drop_facts(work, cache)
        st.CACHES.put(cache)
    open('/tmp/benign-results/%s.txt' % name, 'w').write('\n'.join(lines) + ('\n' if lines else 'silent\n'))
    return name, lines

with ThreadPoolExecutor(max_workers=8) as ex:
    res = list(ex.map(one, pats))
silent = [n for n, l in res if not l]
print('silent %d/%d: %s' % (len(silent), len(res), ' '.join(silent)))
for n, l in res:
    if l:
        print('%s: %s' % (n, ' '.join(sorted({x.split()[1].split('/')[0] for x in l if x.startswith(('VIOLATED', 'UNPROVEN'))}))))
