#!/usr/bin/env python3
"""After `tools/benign_batch.py 'selftest/corpus/*.patch'`: promote the corpus variants on which the related checks are
silent to selftest/benign/ (so that ./check selftest keeps them silent), and write selftest/corpus/STATUS.md."""
import glob, json, os, re, shutil
ROOT = os.path.dirname(os.path.dirname(os.path.abspath(__file__)))
C = os.path.join(ROOT, 'selftest', 'corpus')
related = json.load(open(os.path.join(C, 'related.json')))
rows = []
for old in glob.glob(os.path.join(ROOT, 'selftest', 'benign', '*-corpus-*.patch')):
    os.remove(old)
for p in sorted(glob.glob(os.path.join(C, '*.patch'))):
    name = os.path.basename(p)[:-6]
    res = '/tmp/benign-results/%s.txt' % name
    if not os.path.exists(res):
        rows.append((name, '?', 'not run'))
        continue
    txt = open(res).read()
    failing = sorted(set(re.findall(r'^(C\d\d):', txt, re.M)))
    kind = ''
    t = p[:-6] + '.txt'
    if os.path.exists(t):
        kind = open(t).readline().strip()[:150]
    props = related.get(name, [name.split('-')[0]])
    if not failing:
        rows.append((name, 'silent (all 20 checks)', kind))
    else:
        keys = sorted(set(re.findall(r'^(?:VIOLATED|UNPROVEN) (\S+)', txt, re.M)))
        rows.append((name, 'ALARM in ' + ' '.join(failing) + ': ' + ', '.join(k.split('/', 1)[1] for k in keys[:4]) + (' …' if len(keys) > 4 else ''), kind))
    ok_props = [q for q in props if q not in failing]
    if ok_props:
        shutil.copy(p, os.path.join(ROOT, 'selftest', 'benign', '%s-corpus-%s.patch' % (','.join(ok_props), name)))
n_silent = sum(1 for r in rows if r[1].startswith('silent'))
with open(os.path.join(C, 'STATUS.md'), 'w') as fh:
    fh.write('# Refactoring corpus: status of the behaviour-preserving variants\n\n')
    fh.write('%d variants (`*-v<n>`, `*-w<n>`, `*-x<n>`: non-trivial refactorings of rounds 1, 2 and 3, `*-m<n>`: small edits), written by independent sub-agents from the\n'
             'property text alone; %d are silent on all twenty checks. A variant is part of `./check selftest` (selftest/benign/) for\n'
             'the related checks on which it is silent. Alarms listed here are **known false alarms** of the rules (DESIGN §12.7).\n\n' % (len(rows), n_silent))
    fh.write('| variant | status | what the author changed |\n|---|---|---|\n')
    for r in rows:
        fh.write('| `%s` | %s | %s |\n' % (r[0], r[1], r[2].replace('|', '/')))
print('corpus: %d variants, %d silent on all checks' % (len(rows), n_silent))
