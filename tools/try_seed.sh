#!/bin/sh
# usage: tools/try_seed.sh <patch> <Cxx> [<Cxx>...]   — apply a seeded change to /repo, run the checks, revert.
set -u
PATCH="$1"; shift
cd /verif
if [ -n "$(git -C /repo status --porcelain)" ]; then echo "/repo not clean"; exit 3; fi
git -C /repo apply --whitespace=nowarn "$PATCH" || { echo "patch does not apply"; exit 3; }
for p in "$@"; do
  VERIF_NO_EVIDENCE=1 ./check "$p" --tier quick 2>&1 | grep -E "^(VIOLATED|UNPROVEN|C[0-9]+:|check:)" | cut -c1-400
done
git -C /repo checkout -- . ; git -C /repo clean -fdq -- . 2>/dev/null
git -C /repo status --porcelain | head -3
