#!/bin/sh
# usage: tools/try_seed.sh <patch> <Cxx> [<Cxx>...]   — apply a seeded change to a scratch copy of /repo (never /repo itself,
# so that concurrent checks of the real tree are not disturbed), run the checks against the copy, remove the copy.
set -u
PATCH="$1"; shift
W=$(mktemp -d /tmp/verif-tryseed-XXXXXX)
rsync -a --exclude /target --exclude /.git /repo/ "$W/repo/"
( cd "$W/repo" && git init -q && git apply --whitespace=nowarn "$PATCH" ) || { echo "patch does not apply"; rm -rf "$W"; exit 3; }
cd /verif
for p in "$@"; do
  VERIF_REPO="$W/repo" VERIF_NO_EVIDENCE=1 ./check "$p" --tier quick 2>&1 | grep -E "^(VIOLATED|UNPROVEN|C[0-9]+:|check:)" | cut -c1-400
done
python3 - "$W/repo" <<'PY'
import hashlib, shutil, sys
sfx = '-' + hashlib.sha1(sys.argv[1].encode()).hexdigest()[:8]
for c in 'PW':
    shutil.rmtree('/verif/.cache/facts-%s%s' % (c, sfx), ignore_errors=True)
PY
rm -rf "$W"
