#!/usr/bin/env python3
"""Regenerate the mutant / benign tables of DESIGN.md §12.4 from selftest/mutants and selftest/benign.
usage: tools/mktables.py   (rewrites the region between the BEGIN/END markers in DESIGN.md)"""
import glob, os, re
ROOT = os.path.dirname(os.path.dirname(os.path.abspath(__file__)))
rows = ['| mutant (`selftest/mutants/<name>.patch`) | killed by key containing |', '|---|---|']
seeds = 0
for p in sorted(glob.glob(os.path.join(ROOT, 'selftest', 'mutants', '*.patch'))):
    name = os.path.basename(p)[:-6]
    exp = [l.split(':', 1)[1].strip() for l in open(p) if l.startswith('# expect:')]
    if '-seed-' in name:
        seeds += 1
    rows.append('| `%s` | %s |' % (name, ', '.join('`%s`' % e for e in exp) or '(any key of the property)'))
n = len(rows) - 2
brows = ['| benign variant (`selftest/benign/<name>.patch`) | checks that must stay silent |', '|---|---|']
for p in sorted(glob.glob(os.path.join(ROOT, 'selftest', 'benign', '*.patch'))):
    name = os.path.basename(p)[:-6]
    props, _, rest = name.partition('-')
    brows.append('| `%s` | %s |' % (rest, props.replace(',', ', ')))
txt = ('%d mutants (%d self-authored, %d sub-agent seeds kept as regression mutants):\n\n' % (n, n - seeds, seeds)
       + '\n'.join(rows) + '\n\n%d behaviour-preserving variants (false-alarm side, §12.6):\n\n' % (len(brows) - 2) + '\n'.join(brows) + '\n')
d = os.path.join(ROOT, 'DESIGN.md')
s = open(d).read()
a, b = '<!-- BEGIN mutant-table -->\n', '<!-- END mutant-table -->\n'
i, j = s.index(a), s.index(b)
open(d, 'w').write(s[:i + len(a)] + txt + s[j:])
print('tables: %d mutants, %d benign' % (n, len(brows) - 2))
