#!/bin/bash
# usage: tools/try_benign.sh <patch> [<Cxx>...]  — apply a behaviour-preserving variant to a scratch copy of /repo
# (never /repo itself), run the named checks (default: all 20) against the copy and print anything that is not silent.
set -u
PATCH="$1"; shift
PROPS="${*:-C01 C02 C03 C04 C05 C06 C07 C08 C09 C10 C11 C12 C13 C14 C15 C16 C17 C18 C19 C20}"
W=$(mktemp -d /tmp/verif-trybenign-XXXXXX)
rsync -a --exclude /target --exclude /.git /repo/ "$W/repo/"
( cd "$W/repo" && git init -q && git apply --whitespace=nowarn "$PATCH" ) || { echo "patch does not apply"; rm -rf "$W"; exit 3; }
cd /verif
bad=0
for p in $PROPS; do
  out=$(VERIF_REPO="$W/repo" VERIF_NO_EVIDENCE=1 ./check "$p" --tier quick 2>&1); rc=$?
  if [ $rc -ne 0 ]; then bad=1; echo "$out" | grep -E "^(VIOLATED|UNPROVEN|C[0-9]+:|check:)" | cut -c1-500; fi
done
python3 - "$W/repo" <<'PY'
import hashlib, shutil, sys, os
sfx = '-' + hashlib.sha1(sys.argv[1].encode()).hexdigest()[:8]
for c in 'PW':
    shutil.rmtree('/verif/.cache/facts-%s%s' % (c, sfx), ignore_errors=True)
PY
rm -rf "$W"
[ $bad -eq 0 ] && echo "silent: $(basename "$PATCH")"
exit $bad
