#!/bin/sh
# usage: tools/bv.sh <variant-name> <Cxx>...   run checks against the persistent scratch copy /tmp/bv/<name>/repo
n=$1; shift
for p in "$@"; do VERIF_REPO=/tmp/bv/$n/repo VERIF_NO_EVIDENCE=1 /verif/check $p 2>&1 | grep -E "^(VIOLATED|UNPROVEN|C[0-9]+:|Traceback|\w+Error)" | cut -c1-${COLS:-330}; done
