#!/bin/bash
# usage: tools/confirm_seed.sh <seed-id> <worktree> "<demo test command>" <Cxx> [<Cxx>...]
# Confirms an independently authored breaking change: (1) baseline suite green with the change and without the
# demo, (2) demo fails with the change, (3) demo passes without it; then stores it under seeded/<id>/ and runs the
# named checks against /repo with the change applied (reverted afterwards).
set -u
ID="$1"; WT="$2"; DEMO="$3"; shift 3
OUT=/verif/seeded/$ID
mkdir -p "$OUT"
cd "$WT" || exit 3
export CARGO_TARGET_DIR="$WT/target" CARGO_NET_OFFLINE=true
git reset -q --hard HEAD; git clean -fdq -e change.diff -e demo.diff -e NOTES.md -e target
git apply --whitespace=nowarn change.diff || { echo "change.diff does not apply"; exit 3; }
echo "== baseline with change (demo not applied)"
cargo nextest run --workspace --no-fail-fast --tool-config-file pb:/w/lib/nextest.toml --profile pb --test-threads 8 --offline 2>&1 | tail -3 | tee "$OUT/baseline_with_change.txt"
git apply --whitespace=nowarn demo.diff || { echo "demo.diff does not apply"; exit 3; }
echo "== demo with change (must FAIL)"
bash -c "$DEMO" > "$OUT/demo_with_change.txt" 2>&1; echo "exit=$?" | tee -a "$OUT/demo_with_change.txt"
tail -5 "$OUT/demo_with_change.txt"
git apply -R --whitespace=nowarn change.diff
echo "== demo without change (must PASS)"
bash -c "$DEMO" > "$OUT/demo_without_change.txt" 2>&1; echo "exit=$?" | tee -a "$OUT/demo_without_change.txt"
tail -4 "$OUT/demo_without_change.txt"
cp change.diff "$OUT/patch.diff"; cp demo.diff "$OUT/demo.diff"; cp NOTES.md "$OUT/NOTES.md" 2>/dev/null
echo "== checks against /repo + change"
/verif/tools/try_seed.sh "$OUT/patch.diff" "$@" | tee "$OUT/checks.txt"
