#!/usr/bin/env python3
"""developer tool: author a seeded mutant patch.
usage: mkmutant.py <Cxx-name> <expect-key-substring> <file> <old> <new> [<file> <old> <new> ...]
Edits /repo temporarily, stores `git diff` under selftest/mutants/, reverts /repo."""
import subprocess, sys, os
name, expect = sys.argv[1], sys.argv[2]
trip = sys.argv[3:]
assert len(trip) % 3 == 0
st = subprocess.run(['git', '-C', '/repo', 'status', '--porcelain'], stdout=subprocess.PIPE, text=True).stdout
assert not st.strip(), '/repo not clean: ' + st
try:
    for i in range(0, len(trip), 3):
        f, old, new = trip[i:i+3]
        p = os.path.join('/repo', f)
        s = open(p).read()
        assert s.count(old) == 1, 'pattern count %d in %s: %r' % (s.count(old), f, old)
        open(p, 'w').write(s.replace(old, new))
    d = subprocess.run(['git', '-C', '/repo', 'diff'], stdout=subprocess.PIPE, text=True).stdout
    out = os.path.join(os.path.dirname(__file__), '..', 'selftest', 'mutants', name + '.patch')
    with open(out, 'w') as fh:
        fh.write('# expect: %s\n' % expect)
        fh.write(d)
    print('wrote', out)
finally:
    subprocess.run(['git', '-C', '/repo', 'checkout', '--', '.'])
